"""C18 - non-mutating operations are safe to run concurrently.

Pieces (TLC is the judge of all of them):
  1. harness/conc.cpp --phase fp : every operation class of the catalogue runs single-threaded between deep byte
     snapshots of every shared const input (heap blocks registered while the inputs were built) and of the
     executable's static storage; the differences are the WRITE footprint of the class (recorded, not assumed);
     static differences are mapped to symbols / guard variables with `nm` on the harness binary.
  2. spec/ConstOps.tla (PlusCal): the footprints become model instances (FOOTPRINTS json); TLC explores all
     interleavings of 2 and 3 threads x 2 instances; NoRace / Deterministic / Finishes.  Fixed scenarios are seeded
     specification mutants (shared scratch, unguarded lazy table, cache, rescaled table must be rejected).
  3. the same catalogue on T threads (std::thread), plain build and ThreadSanitizer build; per-thread results vs.
     the sequential reference run of the same binary, bitwise; every TSan report is a `race` event.
  4. TLC's counterexample schedule (and all two-thread block interleavings) replayed on a real SubManifold over a
     user-defined Manifold whose rplus carries the scheduling point.
  5. spec/TraceConc.tla validates all events (clauses C18.norace, C18.same) and binds 1 and 2 to each other.
"""
import concurrent.futures as cf
import itertools
import json
import os
import re
import shutil
import subprocess

import verif as V

PARTS = list(range(7))
PART_NAME = {0: "Lie groups (double)", 1: "manifolds", 2: "Spline/BSpline", 3: "sparse derivatives", 4: "diff::dr/minimize",
             5: "fit_*", 6: "Lie groups (float), Map views"}

PLAN = {
    # runs: (sanitizer, threads, iterations per class before division by the class weight)
    "quick": dict(runs=[("none", 2, 500), ("none", 8, 2000), ("tsan", 8, 2000)], model_threads=(2, 3), obs_par=2),
    "thorough": dict(runs=[("none", 2, 20000), ("none", 3, 20000), ("none", 16, 100000), ("tsan", 2, 5000), ("tsan", 16, 10000)],
                     model_threads=(2, 3), obs_par=1),
}

# fixed scenarios of the design model: cfg -> expected result
MODEL_CASES = [
    ("ConstOps.cfg", "ok"), ("ConstOps_readonly.cfg", "ok"), ("ConstOps_local.cfg", "ok"), ("ConstOps_once.cfg", "ok"),
    ("ConstOps_scratch.cfg", "NoRace"), ("ConstOps_scratch_det.cfg", "Deterministic"), ("ConstOps_lazy.cfg", "NoRace"), ("ConstOps_lazy_det.cfg", "ok"),
    ("ConstOps_cache.cfg", "NoRace"), ("ConstOps_table.cfg", "NoRace"),
]

ASSUME = [
    "write footprints are byte differences between snapshots around single calls: a write that restores the previous bytes is "
    "invisible to the snapshot (ThreadSanitizer still sees it); reads are not observed - the declared const inputs are the read set",
    "the snapshot covers every heap block allocated while the shared inputs were constructed (allocator interposition) and the "
    "writable segments of the executable (all statics of the header-only library); thread_local storage is private by construction",
    "first-use initialisation: C++11 guarded statics are modelled as once-initialised (the guard is the only synchronisation); "
    "inline variables with dynamic initialisation run before main and are ordinary read-only memory afterwards",
    "schedules on the real code are sampled (std::thread on this machine, plain and ThreadSanitizer builds); all interleavings are "
    "explored on the footprint model only (2 and 3 threads x 2 instances per scenario); ThreadSanitizer's happens-before detection "
    "reports races of the executed accesses whatever their timing, within its history window",
    "the sequential reference is a run of the same binary in a separate process (same seeds); SolveResult::time (a wall clock) is not compared",
    "operation catalogue and types are the finite list in harness/conc.cpp; TLC, the JVM, g++/libtsan and nm are trusted",
]


def jobs_for(part, san):
    if san == "tsan":
        return ("conc.cpp", [f"VH_PART={part}", "VH_TSAN"], ["-fsanitize=thread", "-O1", "-g1"], ["-pthread"])
    return ("conc.cpp", [f"VH_PART={part}"], [], ["-Wl,-z,now", "-pthread"])


def run(cmd, timeout, env=None):
    e = dict(os.environ)
    if env:
        e.update(env)
    try:
        r = subprocess.run(cmd, capture_output=True, text=True, timeout=timeout, env=e)
    except subprocess.TimeoutExpired:
        raise V.ToolFailure(f"timeout: {' '.join(cmd)}")
    if r.returncode != 0:
        raise V.ToolFailure(f"harness failed rc={r.returncode}: {' '.join(cmd)}\n{r.stderr[-1500:]}")
    return r


def read_events(path):
    evs = []
    with open(path) as fh:
        for ln in fh:
            ln = ln.strip()
            if not ln:
                continue
            ev = json.loads(ln)
            if ev.get("op") == "TRUNCATED":
                raise V.ToolFailure(f"trace {path} truncated (harness terminated abnormally)")
            evs.append(ev)
    return evs


# ----------------------------------------------------------------------------- symbols of the harness binary

class Symbols:
    def __init__(self, exe):
        out = subprocess.run(["nm", "-C", "-S", "--defined-only", exe], capture_output=True, text=True)
        if out.returncode != 0:
            raise V.ToolFailure(f"nm failed on {exe}: {out.stderr[-500:]}")
        self.syms = []
        for ln in out.stdout.splitlines():
            p = ln.split(None, 3)
            if len(p) == 4 and len(p[0]) == 16 and len(p[1]) == 16:
                try:
                    self.syms.append((int(p[0], 16), int(p[1], 16), p[2], p[3]))
                except ValueError:
                    pass
        self.syms.sort()
        self.guards = {}       # guarded variable name -> guard symbol name
        for a, n, t, name in self.syms:
            if name.startswith("guard variable for "):
                self.guards[name[len("guard variable for "):]] = name

    def at(self, off, length):
        """symbols overlapping [off, off+length)"""
        res = []
        for a, n, t, name in self.syms:
            if t in "tTwW" and not name.startswith("guard variable"):
                continue
            if a < off + length and off < a + max(n, 1):
                res.append((a, n, name))
        return res


def short(name, n=150):
    import hashlib
    name = name.replace('"', "'").replace("\\", "/")
    return name if len(name) <= n else name[:n - 20] + "...#" + hashlib.sha1(name.encode()).hexdigest()[:8]


def annotate_fp(ev, sym):
    """static byte differences [call, off, len] -> records {call, sym, gfor, off, len} (one per overlapping symbol)"""
    sw = []
    sname = short
    for call, off, ln in ev["s"]:
        hits = sym.at(off, ln)
        if not hits:
            sw.append({"call": call, "sym": f"?+{off:#x}", "gfor": "", "off": off, "len": ln})
        for a, n, name in hits:
            g = name[len("guard variable for "):] if name.startswith("guard variable for ") else ""
            rec = {"call": call, "sym": sname(name), "gfor": sname(g) if g else "", "off": off, "len": ln}
            if rec not in sw:
                sw.append(rec)
    ev["sw"] = sw
    return ev


# ----------------------------------------------------------------------------- footprints -> ConstOps scenarios

def merge_ranges(rs):
    rs = sorted(rs)
    out = []
    for a, b in rs:
        if out and a <= out[-1][1]:
            out[-1][1] = max(out[-1][1], b)
        else:
            out.append([a, b])
    return out


def scenarios(fps):
    """group the classes by the type of their shared root; one scenario per group.
    returns list of dict(classes=[names], footprints=[{name, steps}], shape=str)"""
    groups = {}
    for ev in fps:
        groups.setdefault((ev["part"], json.dumps(ev["shid"])), []).append(ev)
    scen = []
    for key, evs in groups.items():
        # write regions per block over the whole group (byte-exact union)
        per_blk = {}
        for ev in evs:
            for call, blk, size, off, ln, rel in ev["w"]:
                per_blk.setdefault(blk, []).append((off, off + ln))
        regions = {blk: merge_ranges(v) for blk, v in per_blk.items()}

        def region_of(blk, off):
            for k, (a, b) in enumerate(regions[blk]):
                if a <= off < b:
                    return f"in.blk{blk}.w{k}"
            raise V.ToolFailure("region lookup failed")
        fpl = []
        for ev in evs:
            steps = []
            stat_calls = {}
            for x in ev["sw"]:
                stat_calls.setdefault(x["sym"], set()).add(x["call"])
            guards_flipped = {x["gfor"] for x in ev["sw"] if x["gfor"] and x["call"] == 1}
            post = []
            for symname in sorted(stat_calls):
                calls = stat_calls[symname]
                if any(x["sym"] == symname and x["gfor"] for x in ev["sw"]):
                    continue                       # the guard variable itself
                if calls == {1} and symname in guards_flipped:
                    steps += [{"k": "Init", "loc": "static:" + symname}, {"k": "R", "loc": "static:" + symname}]
                elif calls == {1}:
                    steps += [{"k": "Lazy", "loc": "static:" + symname}, {"k": "R", "loc": "static:" + symname}]
                else:
                    post += [{"k": "R", "loc": "static:" + symname}, {"k": "W", "loc": "static:" + symname}]
            steps.append({"k": "R", "loc": "in"})
            regs = []
            for call, blk, size, off, ln, rel in ev["w"]:
                r = region_of(blk, off)
                if r not in regs:
                    regs.append(r)
            stable = ev["r1"] == ev["r3"]
            for r in regs:
                steps += ([{"k": "W", "loc": r}, {"k": "R", "loc": r}] if stable else [{"k": "R", "loc": r}, {"k": "W", "loc": r}])
            steps += post
            fpl.append({"name": ev["cls"], "steps": steps})
        # canonical shape (location names by order of first appearance; footprints deduplicated)
        ren = {}
        shapes = []
        for f in fpl:
            sh = []
            for s in f["steps"]:
                ren.setdefault(s["loc"], f"L{len(ren)}")
                sh.append((s["k"], ren[s["loc"]]))
            if sh not in shapes:
                shapes.append(sh)
        distinct = []
        seen = []
        fp_of = {}
        for f in fpl:
            sig = [(s["k"], s["loc"]) for s in f["steps"]]
            if sig not in seen:
                seen.append(sig)
                distinct.append(f)
            fp_of[f["name"]] = seen.index(sig)
        scen.append(dict(classes=[ev["cls"] for ev in evs], footprints=distinct, fp_of=fp_of, shape=json.dumps(shapes),
                         writes=any(ev["w"] for ev in evs) or any(s["k"] in ("Lazy", "W") for f in fpl for s in f["steps"])))
    return scen


def parse_violation(out):
    m = re.search(r"Invariant (\w+) is violated", out)
    if m:
        return m.group(1)
    if "Temporal properties were violated" in out or "Deadlock reached" in out:
        return "Liveness"
    return None


def tlc_model(cfg, workdir, env=None, dump=None, workers=2, timeout=540, module="ConstOps"):
    extra = ["-noGenerateSpecTE"]
    if dump:
        extra += ["-dumpTrace", "json", dump]
    r = V.run_tlc(module, cfg, workdir, env=env, workers=workers, timeout=timeout, extra=extra, xmx="3g")
    out = r["out"]
    viol = parse_violation(out)
    ok = r["rc"] == 0 and "No error has been found" in out
    if not ok and not viol:
        raise V.ToolFailure(f"TLC failed on ConstOps/{cfg} rc={r['rc']}:\n{out[-1500:]}")
    return r, viol


def schedule_from_dump(path):
    """[(thread, footprint step index, kind)] of the `acc` steps of a dumped counterexample"""
    d = json.load(open(path))
    sched = []
    for pre, act, post in d["counterexample"]["action"]:
        if act["name"] != "acc":
            continue
        t = act["context"]["self"]
        st = pre[1]
        sched.append({"t": t, "k": st["k"][t - 1], "i": st["i"][t - 1], "ph": st["ph"][t - 1], "f": st["f"][t - 1]})
    return sched


def tla_str(x):
    return '"' + x.replace("\\", "/").replace('"', "'") + '"'


def write_env_module(sc, idx, workdir):
    """the recorded footprints as a TLA+ module next to generated cfgs (TLC finds ConstOps through TLA-Library)"""
    name = f"ConstOpsEnv_{os.getpid()}_{idx}"
    fps = ",\n  ".join(
        "[name |-> %s, steps |-> <<%s>>]" % (tla_str(f["name"]), ", ".join("[k |-> %s, loc |-> %s]" % (tla_str(s["k"]), tla_str(s["loc"])) for s in f["steps"]))
        for f in sc["footprints"])
    with open(os.path.join(workdir, name + ".tla"), "w") as fh:
        fh.write(f"---- MODULE {name} ----\n\\* footprints recorded from the real code by harness/conc.cpp --phase fp (generated)\nEXTENDS ConstOps\n"
                 f"FpRecorded == <<\n  {fps} >>\n====\n")
    cfgs = {}
    for key, nt, invs, props in (("race2", 2, "TypeOK NoRace Deterministic", "PROPERTIES Finishes\n"), ("det2", 2, "TypeOK Deterministic", ""),
                                 ("all3", 3, "TypeOK NoRace Deterministic", "")):
        cp = os.path.join(workdir, f"{name}_{key}.cfg")
        with open(cp, "w") as fh:
            fh.write(f"SPECIFICATION Spec\nCONSTANTS\n  NThreads = {nt}\n  NInst = 2\n  Footprints <- FpRecorded\nINVARIANTS {invs}\n{props}")
        cfgs[key] = cp
    return os.path.join(workdir, name), cfgs


def has_writes(f):
    return any(st["k"] in ("W", "Lazy") for st in f["steps"])


def run_scenario(sc, idx, threads, workdir):
    """TLC on the recorded footprints of one group of classes (shared root type).
    returns dict(norace, det, per_fp=[verdict per distinct footprint], runs=[...], schedule_race, schedule_det)"""
    env = {"JAVA_TOOL_OPTIONS": f"-DTLA-Library={V.SPEC}"}
    res = dict(norace="ok", det="ok", runs=[], schedule_race=None, schedule_det=None, per_fp=["ok"] * len(sc["footprints"]))

    def rec(key, r, viol):
        res["runs"].append({"cfg": f"recorded footprints, {key}", "violated": viol, "states": r["states"], "distinct": r["distinct"], "depth": r["depth"]})

    def passing(sub, tag, what):
        mod, cfgs = write_env_module(sub, f"{idx}{tag}", workdir)
        r, viol = tlc_model(cfgs["race2"], workdir, env=env, module=mod)
        rec(f"{what}, 2 threads x 2 instances: TypeOK NoRace Deterministic Finishes", r, viol)
        if viol:
            return viol, r
        if 3 in threads:
            r3, viol3 = tlc_model(cfgs["all3"], workdir, env=env, workers=4, module=mod)
            rec(f"{what}, 3 threads x 2 instances: TypeOK NoRace Deterministic", r3, viol3)
            if viol3:
                raise V.ToolFailure(f"ConstOps 3 threads violated {viol3} although 2 threads passed: {sc['classes'][:3]}")
        return None, r

    mod, cfgs = write_env_module(sc, idx, workdir)
    d2 = os.path.join(workdir, f"cex_{idx}_race.json")
    r, viol = tlc_model(cfgs["race2"], workdir, env=env, dump=d2, module=mod)
    rec("all operations of the group, 2 threads x 2 instances: TypeOK NoRace Deterministic Finishes", r, viol)
    if viol == "NoRace":
        res["norace"] = "violated"
        res["schedule_race"] = schedule_from_dump(d2)
        d3 = os.path.join(workdir, f"cex_{idx}_det.json")
        r2, viol2 = tlc_model(cfgs["det2"], workdir, env=env, dump=d3, module=mod)
        rec("all operations of the group, 2 threads x 2 instances: Deterministic only", r2, viol2)
        if viol2 == "Deterministic":
            res["det"] = "violated"
            res["schedule_det"] = schedule_from_dump(d3)
        elif viol2:
            raise V.ToolFailure(f"ConstOps (Deterministic only): unexpected {viol2}")
        # which operations take part: every writing operation on its own must race, the write-free rest must pass
        rest = [f for f in sc["footprints"] if not has_writes(f)]
        for j, f in enumerate(sc["footprints"]):
            if has_writes(f):
                m1, c1 = write_env_module({"footprints": [f]}, f"{idx}w{j}", workdir)
                r1, v1 = tlc_model(c1["race2"], workdir, env=env, module=m1)
                rec(f"{f['name']} alone, 2 threads x 2 instances", r1, v1)
                res["per_fp"][j] = "violated" if v1 == "NoRace" else "ok"
                if v1 and v1 != "NoRace":
                    raise V.ToolFailure(f"ConstOps on {f['name']}: {v1} violated without a race")
        if rest:
            v, rr = passing({"footprints": rest}, "r", "write-free operations of the group")
            if v:
                raise V.ToolFailure(f"ConstOps on the write-free operations of {sc['classes'][:3]}: {v} violated - modelling error:\n{rr['out'][-1200:]}")
    elif viol:
        raise V.ToolFailure(f"ConstOps on recorded footprints {sc['classes'][:3]}: {viol} violated without a race - modelling error:\n{r['out'][-1200:]}")
    elif 3 in threads:
        r3, viol3 = tlc_model(cfgs["all3"], workdir, env=env, workers=4, module=mod)
        rec("all operations of the group, 3 threads x 2 instances: TypeOK NoRace Deterministic", r3, viol3)
        if viol3:
            raise V.ToolFailure(f"ConstOps 3 threads violated {viol3} although 2 threads passed: {sc['classes'][:3]}")
    return res


# ----------------------------------------------------------------------------- ThreadSanitizer reports

ACC_RE = re.compile(r"^\s+(Previous )?(atomic )?(read|write|Read|Write|Atomic read|Atomic write) of size (\d+) at \S+ by (main thread|thread T\d+)")
FRAME_RE = re.compile(r"^\s+#(\d+) (.*) (\S+?):(\d+)(?::\d+)? \(")


def parse_tsan(text, repo_inc):
    """-> list of dict(kind, a, b, where, lib)"""
    reports = []
    for blk in text.split("=================="):
        m = re.search(r"WARNING: ThreadSanitizer: ([^(\n]+?) \(pid=", blk)
        if not m:
            continue
        kind = m.group(1).strip()
        accs = []
        cur = None
        where = ""
        for ln in blk.splitlines():
            am = ACC_RE.match(ln)
            if am:
                cur = {"what": f"{'atomic ' if am.group(2) else ''}{am.group(3).lower()} of size {am.group(4)} by {am.group(5)}", "lib": None, "top": None}
                accs.append(cur)
                continue
            if ln.strip().startswith("Location is") and not where:
                where = ln.strip()
                cur = None
                continue
            if ln.strip().startswith(("Thread T", "Mutex ", "SUMMARY")):
                cur = None
                continue
            fm = FRAME_RE.match(ln)
            if fm and cur is not None:
                path = fm.group(3)
                if cur["top"] is None:
                    cur["top"] = f"{os.path.basename(path)}:{fm.group(4)}"
                if cur["lib"] is None and "/include/smooth/" in path:
                    cur["lib"] = "smooth/" + path.split("/include/smooth/", 1)[1] + ":" + fm.group(4)
        if kind != "data race" and not accs:
            accs = [{"what": kind, "lib": None, "top": None}]
        descr = [f"{a['what']} at {a['lib'] or a['top'] or '?'}" for a in accs[:2]]
        while len(descr) < 2:
            descr.append("-")
        reports.append({"kind": kind, "a": descr[0], "b": descr[1], "where": (where or "-").replace('"', "'"),
                        "lib": any(a["lib"] for a in accs) or "smooth" in blk and "/include/smooth/" in blk})
    return reports


# ----------------------------------------------------------------------------- one class, one run configuration

def _paths(workdir, tag):
    base = os.path.join(workdir, f"run_{tag}")
    return base + ".ref.ndjson", base + ".obs.ndjson", base + ".tsan"


def _tsan_env(san, logp):
    if san != "tsan":
        return None
    return {"TSAN_OPTIONS": f"log_path={logp} halt_on_error=0 exitcode=0 report_thread_leaks=0 history_size=4"}


def run_ref(exes, part, cls, san, T, N, seed, workdir, tag):
    """sequential reference run (single thread) of one class; returns the ref events"""
    refp, obsp, logp = _paths(workdir, tag)
    run([exes[(part, san)], "--phase", "ref", "--cls", cls, "--T", str(T), "--N", str(N), "--seed", str(seed), "--out", refp], 580, _tsan_env(san, logp + ".ref"))
    evs = read_events(refp)
    os.remove(refp)
    if len(evs) != T:
        raise V.ToolFailure(f"{cls}: expected {T} ref events, got {len(evs)}")
    return evs


def run_obs(exes, part, cls, san, T, N, seed, workdir, tag, n_eff):
    """the same instances on T threads; returns obs events (or one crash event) and the race events"""
    refp, obsp, logp = _paths(workdir, tag)
    e = dict(os.environ)
    env = _tsan_env(san, logp)
    if env:
        e.update(env)
    cmd = [exes[(part, san)], "--phase", "obs", "--cls", cls, "--T", str(T), "--N", str(N), "--seed", str(seed), "--out", obsp]
    try:
        r = subprocess.run(cmd, capture_output=True, text=True, timeout=580, env=e)
    except subprocess.TimeoutExpired:
        raise V.ToolFailure(f"timeout: {' '.join(cmd)}")
    evs = []
    if r.returncode != 0:
        # the sequential run of exactly these instances completed; an abnormal end of the concurrent run is an observation
        if r.returncode > 0 and r.returncode != 3:
            raise V.ToolFailure(f"harness failed rc={r.returncode}: {' '.join(cmd)}\n{r.stderr[-1500:]}")
        msg = (r.stderr.strip().splitlines() or ["-"])[-1][:200].replace('"', "'")
        evs.append({"op": "crash", "cls": cls, "part": part, "T": T, "N": n_eff, "san": san, "rc": r.returncode, "msg": msg})
    else:
        evs = read_events(obsp)
        if len(evs) != T:
            # the process ended "normally" but threads did not deliver their results: the harness's terminate handler
            # (an exception or a failed assertion inside a worker thread) ends the process with exit code 0 so that
            # the trace is not truncated.  The sequential run of exactly these instances completed, so this is an
            # observation about the concurrent run, not a tool failure.
            msg = (r.stderr.strip().splitlines() or ["-"])[-1][:200].replace('"', "'")
            evs = [{"op": "crash", "cls": cls, "part": part, "T": T, "N": n_eff, "san": san, "rc": 0,
                    "msg": f"{len(evs)} of {T} threads delivered results; " + msg}]
    if os.path.exists(obsp):
        os.remove(obsp)
    if san == "tsan":
        d = os.path.dirname(logp)
        seen = set()
        n = 0
        for fn in sorted(os.listdir(d)):
            if fn.startswith(os.path.basename(logp) + "."):
                txt = open(os.path.join(d, fn), errors="replace").read()
                os.remove(os.path.join(d, fn))
                if fn.startswith(os.path.basename(logp) + ".ref."):
                    if "ThreadSanitizer" in txt:
                        raise V.ToolFailure(f"ThreadSanitizer report in the single-threaded reference run of {cls}:\n{txt[:800]}")
                    continue
                for rep in parse_tsan(txt, None):
                    sig = (rep["kind"], rep["a"], rep["b"])
                    if sig in seen or n >= 8:
                        continue
                    seen.add(sig)
                    n += 1
                    rep.update({"op": "race", "cls": cls, "part": part, "T": T, "N": n_eff, "san": "tsan"})
                    evs.append(rep)
    return evs


def gate_orders(sched_det, fp_gate):
    """block orders (thread ids 0/1 per block) for 2 threads x 2 instances on SubManifold<GateM>::rplus:
    every interleaving of the first instances (6), followed by the second instances run one after the other;
    plus TLC's wrong-result schedule projected on the blocks (W step = block A, read-back step = block B)"""
    orders = []
    for perm in sorted(set(itertools.permutations([0, 0, 1, 1]))):
        orders.append(("enum", list(perm) + [0, 0, 1, 1]))
    if sched_det and fp_gate:
        steps = fp_gate["steps"]
        wr = [j + 1 for j, s in enumerate(steps) if s["k"] == "W" and s["loc"].startswith("in.")]
        rb = [j + 1 for j, s in enumerate(steps) if s["k"] == "R" and s["loc"].startswith("in.blk")]
        proj = [x["t"] - 1 for x in sched_det if x["i"] in wr or x["i"] in rb]
        if all(t in (0, 1) for t in proj):
            need = {0: 4, 1: 4}
            for t in proj:
                need[t] -= 1
            if min(need.values()) >= 0:
                rest = []
                # the thread whose read-back is pending finishes first
                for t in (0, 1):
                    rest += [t] * need[t]
                orders.append(("tlc", proj + rest))
    return orders


# ----------------------------------------------------------------------------- check

def check(prop, tier, seed, replay=None):
    oc = V.Outcome(prop, tier, seed)
    workdir = os.path.join(V.BUILD, "work", f"{prop}_{os.getpid()}")
    os.makedirs(workdir, exist_ok=True)
    try:
        return _check(oc, prop, tier, seed, replay, workdir)
    finally:
        shutil.rmtree(workdir, ignore_errors=True)


def _check(oc, prop, tier, seed, replay, workdir):
    plan = dict(PLAN[tier])
    only = None
    if replay:
        rp = json.load(open(replay))
        only = rp["cls"]
        tier_runs = [tuple(rp["run"])] if rp.get("run") else []
        plan["runs"] = tier_runs or PLAN["quick"]["runs"][:1]
        oc.known = {"open": [], "fixed": []}
    sans = sorted({r[0] for r in plan["runs"]} | {"none"})
    V.version_include()
    keys = [(p, s) for s in sans for p in PARTS]
    exes = dict(zip(keys, V.build_many([jobs_for(p, s) for p, s in keys])))

    model_runs = []
    with cf.ThreadPoolExecutor(8) as pool:
        # ---- fixed design-model scenarios (need no build)
        case_futs = []
        if not replay:
            for cfg, expect in MODEL_CASES:
                case_futs.append((cfg, expect, pool.submit(tlc_model, cfg, workdir, None, None, 2)))

        # ---- footprints
        def fp_part(p):
            out = os.path.join(workdir, f"fp_{p}.ndjson")
            run([exes[(p, "none")], "--phase", "fp", "--cls", "all", "--seed", str(seed), "--out", out], 560, {"LD_BIND_NOW": "1"})
            sym = Symbols(exes[(p, "none")])
            evs = [annotate_fp(ev, sym) for ev in read_events(out)]
            inv = {"op": "inv", "part": p, "guarded": sorted(short(g) for g in sym.guards), "nguards": len(sym.guards),
                   "lib_guarded": sorted(short(g) for g in sym.guards if "smooth::" in g)}
            return p, inv, evs
        import time
        t0 = time.time()
        fp_res = {p: (inv, evs) for p, inv, evs in pool.map(fp_part, PARTS)}
        V.log(f"[conc] footprints recorded {time.time() - t0:.1f}s")
        all_fp = [ev for p in PARTS for ev in fp_res[p][1]]
        classes = [(ev["part"], ev["cls"]) for ev in all_fp]
        if only:
            if only not in [c for _, c in classes]:
                raise V.ToolFailure(f"replay: unknown class {only}")

        # ---- ConstOps on the recorded footprints (one run per distinct scenario shape)
        scen = scenarios(all_fp)
        by_shape = {}
        for sc in scen:
            by_shape.setdefault(sc["shape"], []).append(sc)
        shape_list = list(by_shape.items())
        if only:
            shape_list = [(sh, scs) for sh, scs in shape_list if any(only in sc["classes"] for sc in scs)]
        scen_futs = [(sh, scs, pool.submit(run_scenario, scs[0], i, plan["model_threads"], workdir)) for i, (sh, scs) in enumerate(shape_list)]

        # ---- runs on real threads
        run_events = {p: [] for p in PARTS}
        todo = [(p, c) for p, c in classes if not only or c == only]
        tagn = 0
        for san, T, N in plan["runs"]:
            # stage 1: the single-threaded reference runs, many at a time
            refs = {}
            with cf.ThreadPoolExecutor(10) as rpool:
                futs = []
                for p, c in todo:
                    tagn += 1
                    futs.append((p, c, tagn, rpool.submit(run_ref, exes, p, c, san, T, N, seed, workdir, f"{tagn}")))
                for p, c, tg, f in futs:
                    refs[(p, c)] = (tg, f.result())
            # stage 2: the concurrent runs, about 16 runnable threads at a time
            par = max(1, min(8, 16 // T))
            with cf.ThreadPoolExecutor(par) as opool:
                futs = []
                for p, c in todo:
                    tg, revs = refs[(p, c)]
                    futs.append((p, c, opool.submit(run_obs, exes, p, c, san, T, N, seed, workdir, f"{tg}", revs[0]["N"])))
                for p, c, f in futs:
                    run_events[p] += refs[(p, c)][1] + f.result()
            V.log(f"[conc] runs {san} T={T} N={N} done at {time.time() - t0:.1f}s")

        # ---- collect the model results
        model_ev = {p: [] for p in PARTS}
        sched_det_gate, fp_gate = None, None
        for sh, scs, f in scen_futs:
            res = f.result()
            for r in res["runs"]:
                oc.states += r["distinct"]
                oc.transitions += r["states"]
            model_runs.append({"scenario_classes": sum(len(sc["classes"]) for sc in scs), "example": scs[0]["classes"][:4],
                               "footprints": scs[0]["footprints"], "norace": res["norace"], "deterministic": res["det"], "runs": res["runs"]})
            for sc in scs:
                part = next(p for p, c in classes if c == sc["classes"][0])
                for c in sc["classes"]:
                    if only and c != only:
                        continue
                    verdict = res["per_fp"][sc["fp_of"][c]]
                    model_ev[part].append({"op": "model", "cls": c, "part": part, "norace": verdict, "det": res["det"] if verdict != "ok" else "ok",
                                           "nfoot": len(sc["footprints"]),
                                           "schedule": json.dumps(res["schedule_race"]) if res["schedule_race"] else "-"})
                if "man.sub.gate.rplus" in sc["classes"]:
                    # the schedule found on the first scenario of the shape applies to every scenario of the shape
                    sched_det_gate = res["schedule_det"]
                    fp_gate = next((f for f in scs[0]["footprints"]), None)
                    for fcand in sc["footprints"]:
                        if fcand["name"] == "man.sub.gate.rplus":
                            fp_gate = fcand
        for cfg, expect, f in case_futs:
            r, viol = f.result()
            oc.states += r["distinct"]
            oc.transitions += r["states"]
            got = viol or "ok"
            model_runs.append({"cfg": cfg, "expected": expect, "result": got, "states": r["states"], "distinct": r["distinct"], "depth": r["depth"]})
            if got != expect:
                raise V.ToolFailure(f"design model {cfg}: expected {expect}, TLC says {got} (seeded specification mutant not rejected / "
                                    f"design scenario rejected):\n{r['out'][-1200:]}")

        V.log(f"[conc] design models done at {time.time() - t0:.1f}s")
        # ---- schedule replay on the real SubManifold<GateM>
        sched_ev = []
        if not only or only.startswith("man.sub.gate"):
            orders = gate_orders(sched_det_gate, fp_gate)
            if replay and rp.get("order"):
                orders = [("replay", rp["order"])]
            for j, (src, order) in enumerate(orders):
                out = os.path.join(workdir, f"sched_{j}.ndjson")
                run([exes[(1, "none")], "--phase", "sched", "--T", "2", "--seed", str(seed), "--order", ",".join(map(str, order)), "--out", out], 120)
                for ev in read_events(out):
                    ev["src"] = src
                    sched_ev.append(ev)

        # ---- traces, one per part
        traces = []
        for p in PARTS:
            inv, fps = fp_res[p]
            evs = [inv] + [ev for ev in fps if not only or ev["cls"] == only] + model_ev[p] + run_events[p] + (sched_ev if p == 1 else [])
            if len(evs) <= 1 and only:
                continue
            path = os.path.join(workdir, f"trace_{p}.ndjson")
            with open(path, "w") as fh:
                for ev in evs:
                    fh.write(json.dumps(ev) + "\n")
            traces.append((p, path, evs))
        vfuts = [(p, path, evs, pool.submit(V.validate_chunk, "TraceConc", "TraceConc.cfg", path, workdir, 560)) for p, path, evs in traces]
        found = []
        for p, path, evs, f in vfuts:
            v, r = f.result()
            oc.states += r["distinct"]
            oc.transitions += max(r["states"] - 1, 0)
            oc.traces += 1
            oc.events += v["lines"]
            oc.add_cov(v.get("cov") or {})
            for b in v["bad"]:
                ev = evs[b["line"] - 1]
                b2 = dict(b)
                b2["g"] = None
                b2["sc"] = ev.get("san")
                if b["clause"].startswith("TOOL."):
                    raise V.ToolFailure(f"recording / binding problem: {b2}")
                payload = {"family": "conc", "cls": ev.get("cls"), "part": p, "event_op": ev["op"], "seed": seed}
                if ev["op"] in ("obs", "race", "crash"):
                    n_req = next((N for s_, T_, N in plan["runs"] if s_ == ev.get("san") and T_ == ev.get("T")), ev.get("N"))
                    payload["run"] = [ev.get("san"), ev.get("T"), n_req]
                if ev["op"] == "sched":
                    payload["order"] = ev["order"]
                    payload["cls"] = "man.sub.gate.rplus"
                if ev["op"] == "fp":
                    payload["writes"] = ev["w"][:12]
                    payload["static_writes"] = ev["sw"][:8]
                    mm = [m for m in model_ev[p] if m["cls"] == ev["cls"]]
                    if mm:
                        payload["constops"] = {"norace": mm[0]["norace"], "deterministic": mm[0]["det"], "racing_schedule": mm[0]["schedule"]}
                found.append((p, b["line"], b2, payload))
        V.log(f"[conc] traces validated at {time.time() - t0:.1f}s")
        # deterministic order; the evidence kinds of one class next to each other
        for p, line, b2, payload in sorted(found, key=lambda t: (t[0], t[2].get("stratum") or "", t[2]["op"], t[1])):
            oc.bad_step(b2, payload)

    # ---- coverage (no vacuity)
    if not replay:
        miss = []
        for p, c in classes:
            if oc.cov.get(f"fp|{c}", 0) < 1:
                miss.append(f"fp|{c}")
            if not any(k.startswith(f"model|{c}|") for k in oc.cov):
                miss.append(f"model|{c}")
            for san, T, N in plan["runs"]:
                for op in ("ref", "obs"):
                    if oc.cov.get(f"{op}|{c}|{san}|T{T}", 0) != T and not (op == "obs" and oc.cov.get(f"crash|{c}|{san}|T{T}", 0) == 1):
                        miss.append(f"{op}|{c}|{san}|T{T}")
        if oc.cov.get("sched|man.sub.gate.rplus", 0) < 6:
            miss.append("sched")
        if miss:
            raise V.ToolFailure("coverage cells not visited: " + "; ".join(miss[:12]))
    guards_lib = sorted({g for p in PARTS for g in fp_res[p][0]["lib_guarded"]})
    flipped = sorted({x["gfor"] for ev in all_fp for x in ev["sw"] if x["gfor"]})
    for ev in [e for e in all_fp if e["w"] or e["sw"]][:3] + all_fp[:2]:
        oc.samples.append({k: ev[k] for k in ("op", "cls", "root", "nblk", "heap_bytes", "seg_bytes", "w", "sw")})
    rule = ("one evaluation = one validated event: a recorded footprint (three calls between byte snapshots), a ConstOps verdict bound to it, "
            "one thread's results of a concurrent run compared bitwise with the sequential run, one ThreadSanitizer report, or one replayed "
            "schedule; states/transitions = TLC's counts summed over the ConstOps runs (exhaustive for their constants: fixed scenarios, "
            "recorded footprints with 2 and 3 threads x 2 instances) and the trace runs; cells = event kind | class | build | threads")
    rc = oc.finish("model_checking", rule, ASSUME,
                   extra_cov={"classes": len(classes), "runs": [list(r) for r in plan["runs"]],
                              "design_model_runs": model_runs,
                              "library_statics_behind_guards": guards_lib,
                              "guards_seen_flipping_in_first_call": flipped,
                              "exhaustive_note": "ConstOps runs are exhaustive for their constants (all interleavings); runs on real threads are samples",
                              "checker_cmd": "java tlc2.TLC -config ConstOps_*.cfg ConstOps.tla ; java tlc2.TLC -config TraceConc.cfg TraceConc.tla (one process per harness part)"})
    return rc
