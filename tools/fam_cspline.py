"""C11 - cumulative spline evaluation and its derivative outputs.

Trace validation of the "cspline" harness family (harness/cspline.cpp) against spec/TraceCSpline.tla, whose
oracle is the reference semantics of spec/CSplineRef.tla (product of matrix exponentials, Leibniz rule on exact
matrices, exact central differences for the Jacobians)."""
import concurrent.futures as cf
import json
import os
import shutil
import subprocess

import verif as V

# harness group numbers (harness/cspline.cpp)
GROUPS = {0: "SO2", 1: "SO3", 2: "SE2", 3: "SE3", 8: "R:3", 20: "B(SO3,R:2)", 21: "B(SE2,SO3)", 22: "R:2"}
DOF = {0: 1, 1: 3, 2: 3, 3: 6, 8: 3, 20: 5, 21: 6, 22: 2}
DIM = {0: 2, 1: 3, 2: 3, 3: 4, 8: 4, 20: 6, 21: 6, 22: 3}
COMMUTATIVE = {0, 8, 22}

# n: evaluation cases per degree and group (each = one eval_vs + one eval_gs event, five calls each);
# jn: how many of them also get the two Jacobian events; deep: differences as close as 1e-6 to pi
PLAN = {
    "quick": dict(gs=[1, 2, 3, 8, 20], n=7, jn=2, deep=0, nchunks=32, timeout=900),
    "thorough": dict(gs=[0, 1, 2, 3, 8, 20, 21, 22], n=72, jn=24, deep=1, nchunks=160, timeout=7200),
}

OPS = ("eval_vs", "eval_gs", "dg_dvs", "dg_dgs")

ASSUME = [
    "oracle: g(u) = prod_i ExpM(b_i(u) hat(v_i)) with b_i(u) = sum_k u^k B[k][i] for the logged basis matrix, u-derivatives by the "
    "Leibniz rule on exact matrices, body derivatives from g^-1 g', Jacobians by exact central differences with h = 2^-40 "
    "(truncation error O(h^2) ~ 1e-24 is an assumption, not a proof); ExpM certified to 2^-128 (spec/RFun.tla)",
    "control-point events: the library's own differences are only witnesses; the spec refines them to logarithms of "
    "g_(i-1)^-1 g_i by Newton steps accepted relationally (correction below 2^-100) and checks the principal range",
    "tolerances: value 1e-9 (matrix space); vel/acc/jerk and Jacobians 1e-7 of the largest exact entry plus a rounding floor of "
    "1e-12 x (magnitude of the contributing terms); control-point events add 1e-13 x sensitivity for the 8-ulp representation "
    "error of the control points",
    "TLC, the JVM and the BigRat/RFun Java overrides (differentially tested against the plain TLA+ definitions) are trusted",
    "inputs are a stratified sample (degree x basis x u class x difference profile x group), compile-time family K = 1..6, "
    "double precision only; preconditions asserted by the library (acc requires vel, jer requires acc, dacc_dvs requires dvel_dvs) "
    "are respected",
]


def harness_job(g):
    return ("cspline.cpp", [f"VH_GROUP={g}"])


def run_harness(exe, args, out):
    r = subprocess.run([exe] + args + ["--out", out], capture_output=True, text=True, timeout=900)
    if r.returncode != 0:
        raise V.ToolFailure(f"harness {exe} {' '.join(args)} failed rc={r.returncode}: {r.stderr[-1000:]}")


def cost(ev, g):
    """rough relative cost of validating one event (used only to balance the chunks)"""
    K, d, n = ev["K"], DIM[g] / 3.0, DOF[g]
    if ev["op"] == "eval_vs":
        return 0.5 + 0.07 * K * d * d
    if ev["op"] == "eval_gs":
        return 0.5 + 0.2 * K * d * d
    if ev["op"] == "dg_dvs":
        return 0.5 + 0.06 * 2 * n * K * d * d
    return 0.5 + 0.08 * 2 * n * (K + 1) * d * d


def hexf(x):
    return float(x).hex()


def prog_line(ev):
    """explicit-operand program line (harness --prog) reproducing one logged event"""
    dq = V.dequad
    parts = [f"{ev['op']} {ev['K']} {ev['style']} {ev['basis']}", hexf(dq(ev["u"])),
             " ".join(hexf(x) for row in dq(ev["B"]) for x in row)]
    for v in dq(ev["vs"] if "vs" in ev else ev["gs"]):
        parts.append(" ".join(hexf(x) for x in v))
    return " ; ".join(parts)


def human(ev):
    out = {}
    for k, x in ev.items():
        if k == "calls":
            out[k] = [{kk: V.dequad(vv) for kk, vv in c.items()} for c in x]
        else:
            out[k] = V.dequad(x)
    return out


def balanced_chunks(traces, nchunks, workdir):
    """distribute all events over nchunks files (longest processing time first); returns list of (file, [(trace idx, line no)])"""
    items = []
    for ti, (path, meta) in enumerate(traces):
        lines = open(path).read().splitlines()
        if not lines:
            raise V.ToolFailure(f"trace {path} is empty")
        if '"op":"TRUNCATED"' in lines[-1]:
            raise V.ToolFailure(f"trace {path} truncated (harness terminated abnormally)")
        meta["lines"] = lines
        for li, ln in enumerate(lines):
            ev = json.loads(ln)
            items.append((cost(ev, meta["g"]), ti, li))
    items.sort(key=lambda t: -t[0])
    nchunks = max(1, min(nchunks, len(items)))
    loads = [0.0] * nchunks
    members = [[] for _ in range(nchunks)]
    for c, ti, li in items:
        k = loads.index(min(loads))
        loads[k] += c
        members[k].append((ti, li))
    chunks = []
    for k, mem in enumerate(members):
        if not mem:
            continue
        p = os.path.join(workdir, f"chunk_{k:04d}.ndjson")
        with open(p, "w") as fh:
            for ti, li in mem:
                fh.write(traces[ti][1]["lines"][li] + "\n")
        chunks.append((p, mem, loads[k]))
    chunks.sort(key=lambda c: -c[2])
    return chunks


def validate(oc, traces, nchunks, workdir, timeout):
    chunks = balanced_chunks(traces, nchunks, workdir)
    with cf.ThreadPoolExecutor(V.NCPU) as ex:
        futs = {ex.submit(V.validate_chunk, "TraceCSpline", "TraceCSpline.cfg", p, workdir, timeout): (p, mem) for p, mem, _ in chunks}
        for f in cf.as_completed(futs):
            p, mem = futs[f]
            v, r = f.result()
            oc.states += r["distinct"]
            oc.transitions += max(r["states"] - 1, 0)
            oc.traces += 1
            oc.events += v["lines"]
            oc.add_cov(v.get("cov") or {})
            for b in v["bad"]:
                ti, li = mem[b["line"] - 1]
                meta = traces[ti][1]
                ev = json.loads(meta["lines"][li])
                b2 = dict(b)
                b2["line"] = li + 1
                b2["g"] = ev.get("g")
                b2["sc"] = ev.get("sc")
                b2["K"] = ev.get("K")
                b2["basis"] = ev.get("basis")
                if b["clause"].startswith("TOOL."):
                    raise V.ToolFailure(f"harness/oracle problem (not a verdict): {b2} in {meta.get('path')}")
                payload = {k: x for k, x in meta.items() if k != "lines"}
                payload.update({"property": "C11", "family": "cspline", "line": li + 1, "prog": [prog_line(ev)], "event": human(ev)})
                oc.bad_step(b2, payload)
            for q in (p, p + ".verdict.json"):
                if os.path.exists(q):
                    os.remove(q)
    for path, meta in traces[:3]:
        for i in (1, len(meta["lines"]) - 2):
            if 0 <= i < len(meta["lines"]):
                ev = human(json.loads(meta["lines"][i]))
                ev["calls"] = ev["calls"][-1:]
                oc.samples.append(ev)


def coverage_holes(cov, groups):
    """every op must have met every degree, basis, u class and difference class, and every group (no vacuity)"""
    seen = {}
    for key, n in cov.items():
        parts = key.split("|")
        if len(parts) != 6 or n <= 0:
            continue
        op, gk, kk, basis, ucls, vcls = parts
        for dim, val in (("group", gk), ("K", kk), ("basis", basis), ("u", ucls), ("v", vcls)):
            seen.setdefault((op, dim), set()).add(val)
    need_groups = {GROUPS[g].split(":")[0].split("(")[0] for g in groups}
    holes = []
    for op in OPS:
        want = {"group": need_groups, "K": {f"K{k}" for k in range(1, 7)}, "basis": {"bern", "bspl", "rand"}, "u": {"u0", "u1", "ui"},
                "v": {"Z", "T", "P", "G"} | ({"V"} if any(g in COMMUTATIVE for g in groups) else set())}
        for dim, vals in want.items():
            miss = vals - seen.get((op, dim), set())
            if miss:
                holes.append(f"{op}: {dim} {sorted(miss)}")
    return holes


def witnesses(oc, prop, workdir):
    traces = []
    for i, ent in enumerate(oc.known["open"]):
        if ent.get("property") != prop or "witness" not in ent:
            continue
        w = ent["witness"]
        if w.get("family") != "cspline":
            continue
        exe = V.build_one(*harness_job(w["g"]))
        prog = os.path.join(workdir, f"witness_{i}.prog")
        with open(prog, "w") as fh:
            fh.write("\n".join(w["prog"]) + "\n")
        out = os.path.join(workdir, f"witness_{i}.ndjson")
        run_harness(exe, ["--prog", prog], out)
        traces.append((out, {"g": w["g"], "group": GROUPS[w["g"]], "witness_of": i, "path": out}))
    return traces


def check(prop, tier, seed, replay=None):
    cfg = PLAN[tier]
    oc = V.Outcome(prop, tier, seed)
    workdir = os.path.join(V.BUILD, "work", f"{prop}_{os.getpid()}")
    os.makedirs(workdir, exist_ok=True)
    try:
        traces = []
        if replay:
            rp = json.load(open(replay))
            g = rp["g"]
            exe = V.build_one(*harness_job(g))
            prog = os.path.join(workdir, "replay.prog")
            with open(prog, "w") as fh:
                fh.write("\n".join(rp["prog"]) + "\n")
            out = os.path.join(workdir, "replay.ndjson")
            run_harness(exe, ["--prog", prog], out)
            traces.append((out, {"g": g, "group": GROUPS[g], "replay_of": replay, "path": out}))
            oc.known = {"open": [], "fixed": []}   # a replay reports what it sees
            nchunks = 1
        else:
            V.version_include()   # once, before the parallel builds (its temp-file name is per process, not per thread)
            exes = V.build_many([harness_job(g) for g in cfg["gs"]])
            for pos, (g, exe) in enumerate(zip(cfg["gs"], exes)):
                out = os.path.join(workdir, f"g{g}.ndjson")
                args = ["--n", str(cfg["n"]), "--jn", str(cfg["jn"]), "--joff", str(2 * pos), "--off", str(5 * pos + seed % 7),
                        "--deep", str(cfg["deep"]), "--seed", str(seed)]
                run_harness(exe, args, out)
                traces.append((out, {"g": g, "group": GROUPS[g], "args": args, "seed": seed, "path": out}))
            traces += witnesses(oc, prop, workdir)
            nchunks = cfg["nchunks"]
        validate(oc, traces, nchunks, workdir, cfg["timeout"])
        if not replay:
            holes = coverage_holes(oc.cov, cfg["gs"])
            if holes:
                raise V.ToolFailure("coverage holes (the check would be vacuous for): " + "; ".join(holes))
        rule = ("one evaluation = one recorded case of a library entry point (five calls with different optional outputs for the "
                "evaluation events, three / four for the Jacobian events) validated by TLC against the exact reference semantics; "
                "cells = op | group | degree | basis | u class | difference class (Z all zero, T below the small-angle switch, "
                "P within 1e-2 of pi, G other, V vector group) re-derived by the trace spec; distinct_nontrivial = non-empty cells")
        rc = oc.finish("model_checking", rule, ASSUME,
                       extra_cov={"groups": [m["group"] for _, m in traces],
                                  "degrees": [1, 2, 3, 4, 5, 6],
                                  "checker_cmd": "java tlc2.TLC -config TraceCSpline.cfg TraceCSpline.tla (one process per balanced chunk)"})
        return rc
    finally:
        shutil.rmtree(workdir, ignore_errors=True)
