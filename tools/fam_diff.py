"""C08 - tangent-space differentiation diff::dr<K, Type>(f, wrt(x...)[, index subset]).

Decided by trace validation of the "diff" harness family (harness/diff.cpp) against spec/TraceDiff.tla:
one event = one (callable, evaluation point) with every call the harness makes at that point
(const / non-const reference pattern x index subset x K x mode, enumerated at compile time);
TLC evaluates the callable's expression tree, its exact right derivative and Hessian over exact
rationals and judges every call (clauses C08.value / .jac / .hess / .subset / .analytic / .restore)."""
import concurrent.futures as cf
import json
import os
import shutil
import subprocess

import verif as V

# callable id (-DVH_FN) -> name, arity, trace-validation cost class (events per TLC process)
FNS = {
    1: ("compose.SO3d", 2, 8), 2: ("compose.SE2d", 2, 8), 3: ("compose.SE3d", 2, 8), 4: ("compose.Bundle<SO3d,Vector3d>", 2, 8),
    5: ("log.SO3d", 1, 8), 6: ("log.SE3d", 1, 8), 7: ("act.SO3d", 2, 8), 8: ("act.SE2d", 2, 8), 9: ("act.SE3d", 2, 8),
    10: ("rminus.SO3d", 2, 8), 11: ("rminus.SE2d", 2, 8), 12: ("rminus.Bundle<SO3d,Vector3d>", 2, 8),
    13: ("Adv.SE2d", 2, 8), 14: ("Adv.SO3d", 2, 8), 15: ("polymap.s_v3_wX", 3, 8), 16: ("polymap.wX_v2", 2, 8),
    17: ("compact.SE3d", 3, 8), 18: ("logcomp.SO3d", 2, 8), 19: ("comprminus.SE2d", 3, 8), 20: ("vprod.vecSO3_SO3", 2, 8),
    21: ("vact.vecSO3_v3_s", 3, 8), 22: ("bmix.Bundle_wX", 2, 8),
    23: ("sqn.SO3d", 2, 4), 24: ("sqn.SE2d", 2, 4), 25: ("sqn.SE3d", 2, 2), 26: ("linact.SO3d", 2, 4), 27: ("linact.SE3d", 2, 4),
    28: ("spoly.s_v2_wX", 3, 4), 29: ("vsqn.vecSO3_SO3", 2, 2), 30: ("sbun.Bundle_v3", 2, 4),
    31: ("ana.JH.SO3_v3", 2, 4), 32: ("ana.J.v2_s", 2, 8), 33: ("ana.ref.v2", 1, 8), 34: ("ana.J.SE2_SE2", 2, 8),
    # std::vector<VectorXd> arguments: ragged {3,4,2}, {1,5} (with an SO3d), {2,2,3} (between a Vector2d and a double),
    # equal-length {3,3}; nested ragged std::vector<std::vector<VectorXd>> {{2,3},{1}} (with a double)
    35: ("vvmap.ragged342", 1, 8), 36: ("svv.ragged15_SO3", 2, 4), 37: ("svv.v2_ragged223_s", 3, 4), 38: ("svv.equal33", 1, 8),
    39: ("snest.ragged23_1_s", 2, 4),
    # vector-valued callables differentiated to second order (stacked Hessian with ny = 2, 3 blocks, 2 and 3 arguments)
    40: ("vquad.v2_v3", 2, 4), 41: ("act2.SO3d", 2, 4), 42: ("vse2.SE2_v2_s", 3, 4), 43: ("vdyn.wX_SO3_v2", 3, 4),
    44: ("ana.vec.v2_v3", 2, 4),
}
PLAN = {"quick": dict(n=8, scale=1), "thorough": dict(n=160, scale=4)}

# clause cells that every run must have exercised (no vacuity)
REQUIRED_CELLS = [
    "clause|C08.value", "clause|C08.subset.value", "clause|C08.subset.k0",
    "clause|C08.jac", "clause|C08.subset.jac", "clause|C08.jac.k2", "clause|C08.subset.jac.k2",
    "clause|C08.hess", "clause|C08.subset.hess",
    "clause|C08.analytic.K1.ana", "clause|C08.analytic.K1.def", "clause|C08.analytic.K2.ana", "clause|C08.analytic.K2.def",
    "clause|C08.restore.m", "clause|C08.restore.mm", "clause|C08.restore.mmm", "clause|C08.restore.cm", "clause|C08.restore.mc",
    "clause|C08.restore.cmc", "clause|C08.restore.mcm", "clause|C08.restore.ccc",
    # accuracy actually decided for every std::vector argument shape, in particular the ragged ones
    "acc|vvmap.ragged342|jac", "acc|svv.ragged15_SO3|jac", "acc|svv.ragged15_SO3|hess",
    "acc|svv.v2_ragged223_s|jac", "acc|svv.v2_ragged223_s|hess", "acc|svv.equal33|jac", "acc|svv.equal33|hess",
    "acc|snest.ragged23_1_s|jac", "acc|snest.ragged23_1_s|hess",
    # stacked Hessians of vector-valued callables with several arguments (numerical and verbatim), full and subset
    "acc|vquad.v2_v3|hess", "acc|act2.SO3d|hess", "acc|vse2.SE2_v2_s|hess", "acc|vdyn.wX_SO3_v2|hess", "acc|ana.vec.v2_v3|hess",
    "acc|ana.vec.v2_v3|analytic.K2", "shape|C08.hess.ny3.args2", "shape|C08.hess.ny2.args3", "shape|C08.hess.ny2.args2",
    "shape|C08.subset.hess.ny3.args2", "shape|C08.subset.hess.ny2.args3", "shape|C08.subset.hess.ny2.args2",
    "acc|vprod.vecSO3_SO3|jac", "acc|vact.vecSO3_v3_s|jac", "acc|vsqn.vecSO3_SO3|jac", "acc|vsqn.vecSO3_SO3|hess",
]

ASSUME = [
    "oracle: expression tree of the callable evaluated over exact rationals from the documented matrix forms (spec/Groups.tla): chain rule over Ad = vee(M hat(e_i) M^-1), Jr = Phi1(-ad) by certified power series, matrix actions, monomial differentiation; logarithms are specified relationally (Exp(w) = M, residual solved to 1e-40 from the logged witness); Hessians by exact central differences (h = 2^-32) of the exact Jacobian, truncation h^2/6 |d^3 J| assumed < 1e-9 on the family",
    "the callables are a closed finite family (44 callables, about 1900 compile-time instantiations of dr); points are a seeded sample (generic / coordinates at 0.1 and 10 / many zero coordinates / identity), not all points",
    "'O(1) values and derivatives' is read as: no value entry above 10 and the largest entry of the requested exact Jacobian / Hessian in [0.1, 10] (the property's own range for 'magnitude'); calls outside are not judged for accuracy (counted as skipped)",
    "the value clause compares with the callable evaluated directly by the harness (bitwise) and with the specification's exact value (1e-9)",
    "TLC, the JVM and the BigRat / RFun Java overrides (differentially tested against the plain TLA+ definitions) are trusted",
]


def harness_jobs(fns):
    return [("diff.cpp", [f"VH_FN={i}"]) for i in fns]


def run_harness(exe, n, seed, out):
    r = subprocess.run([exe, "--n", str(n), "--seed", str(seed), "--out", out], capture_output=True, text=True, timeout=900)
    if r.returncode != 0:
        raise V.ToolFailure(f"harness {exe} failed rc={r.returncode}: {r.stderr[-1000:]}")


def call_of(ev, callid):
    """find the call record of an event from the CallId string of the trace spec (cm|i<idx><s|f>|K<k>|<mode>[|argN])"""
    parts = callid.split("|")
    if len(parts) < 4:
        return None
    cm, idx, k, mode = parts[0], parts[1], parts[2], parts[3]
    for c in ev.get("calls", []):
        cid_idx = "i" + "".join(str(x) for x in c["idx"]) + ("s" if c["sub"] == 1 else "f")
        if c["cm"] == cm and cid_idx == idx and f"K{c['K']}" == k and c["mode"] == mode:
            return c
    return None


def validate_traces(oc, traces, workdir, timeout=1500):
    work = []
    for path, meta, chunk in traces:
        chunks, lines = V.split_trace(path, chunk)
        for cp, first in chunks:
            work.append((cp, first, meta, lines))
    work.sort(key=lambda w: -os.path.getsize(w[0]))
    with cf.ThreadPoolExecutor(V.NCPU) as ex:
        futs = {ex.submit(V.validate_chunk, "TraceDiff", "TraceDiff.cfg", cp, workdir, timeout): (cp, first, meta, lines)
                for cp, first, meta, lines in work}
        for f in cf.as_completed(futs):
            cp, first, meta, lines = futs[f]
            v, r = f.result()
            oc.states += r["distinct"]
            oc.transitions += max(r["states"] - 1, 0)
            oc.traces += 1
            oc.events += v["lines"]
            oc.add_cov(v.get("cov") or {})
            for b in v["bad"]:
                ev = json.loads(lines[first + b["line"] - 1])
                b2 = dict(b)
                b2["line"] = first + b["line"]
                b2["fn"] = ev.get("fn")
                b2["g"] = ev.get("cpp")
                b2["sc"] = "d"
                if b["clause"].startswith("TOOL."):
                    raise V.ToolFailure(f"harness produced an operand outside the domain / invalid witness / unknown op: {b2} in {cp}")
                c = call_of(ev, b.get("call", ""))
                if c is not None:
                    b2["K"], b2["mode"], b2["cm"], b2["sub"], b2["idx"] = c["K"], c["mode"], c["cm"], c["sub"], c["idx"]
                payload = dict(meta)
                payload["line"] = first + b["line"]
                payload["args"] = [{"type": t, "coeffs": V.dequad(a["c"])} for t, a in zip(ev.get("cpp", []), ev.get("args", []))]
                if c is not None:
                    payload["call"] = {k: V.dequad(x) for k, x in c.items()}
                oc.bad_step(b2, payload)
            os.remove(cp)
            vp = cp + ".verdict.json"
            if os.path.exists(vp):
                os.remove(vp)
    for path, meta, _ in traces[:40:13]:
        with open(path) as fh:
            ev = json.loads(fh.readline())
            c = ev["calls"][-1]
            oc.samples.append({"fn": ev["fn"], "arg_types": ev["cpp"], "args": [V.dequad(a["c"]) for a in ev["args"]],
                               "fx": V.dequad(ev["fx"]), "n_calls": len(ev["calls"]),
                               "last_call": {k: V.dequad(x) for k, x in c.items() if k in ("cm", "idx", "sub", "K", "mode", "val", "J")}})


def check(prop, tier, seed, replay=None):
    oc = V.Outcome(prop, tier, seed)
    workdir = os.path.join(V.BUILD, "work", f"{prop}_{os.getpid()}")
    os.makedirs(workdir, exist_ok=True)
    traces = []
    try:
        if replay:
            rp = json.load(open(replay))
            fn = rp["fn_id"]
            exe = V.build_one(*harness_jobs([fn])[0])
            out = os.path.join(workdir, "replay.ndjson")
            run_harness(exe, rp["n"], rp["seed"], out)
            lines = open(out).read().splitlines()
            with open(out, "w") as fh:
                fh.write(lines[rp["line"] - 1] + "\n")
            traces.append((out, {"family": "diff", "fn_id": fn, "fn": FNS[fn][0], "n": rp["n"], "seed": rp["seed"], "replay_of": replay}, 1))
            oc.known = {"open": [], "fixed": []}   # a replay reports what it sees
        else:
            cfg = PLAN[tier]
            fns = sorted(FNS)
            # development aid (mutation experiments on a loaded machine): VERIF_C08_FNS=23,26 restricts the callables;
            # the run is then marked partial and can never be mistaken for a full check (exit 2 instead of 0)
            only = os.environ.get("VERIF_C08_FNS")
            if only:
                fns = sorted(int(x) for x in only.split(","))
            V.version_include()   # generate version.hpp once before the parallel build (the generator is not thread-safe)
            exes = V.build_many(harness_jobs(fns))

            def gen(i_exe):
                i, exe = i_exe
                out = os.path.join(workdir, f"fn{i}.ndjson")
                run_harness(exe, cfg["n"], seed, out)
                return out
            with cf.ThreadPoolExecutor(V.NCPU) as ex:
                outs = list(ex.map(gen, zip(fns, exes)))
            for i, out in zip(fns, outs):
                traces.append((out, {"family": "diff", "fn_id": i, "fn": FNS[i][0], "n": cfg["n"], "seed": seed}, FNS[i][2] * cfg["scale"]))
        validate_traces(oc, traces, workdir)
        by_clause = {}
        for b, _ in oc.violations:
            by_clause[b["clause"]] = by_clause.get(b["clause"], 0) + 1
        V.log(f"C08: rejected checks by clause (before known-finding matching was applied to the rest): {json.dumps(by_clause, sort_keys=True)}")
        calls = {k: v for k, v in oc.cov.items() if k.startswith("call|")}
        skipped = sum(v for k, v in oc.cov.items() if k.startswith("skipped|"))
        judged = sum(v for k, v in oc.cov.items() if k.startswith("clause|") and (".jac" in k or ".hess" in k))
        partial = bool(os.environ.get("VERIF_C08_FNS")) and not replay
        if not replay and not partial:
            missing = [c for c in REQUIRED_CELLS if oc.cov.get(c, 0) == 0]
            if missing:
                raise V.ToolFailure(f"vacuity: clause cells never exercised: {missing}")
            npts = PLAN[tier]["n"]
            short = [k for k, v in calls.items() if v != npts]
            if short:
                raise V.ToolFailure(f"instantiations not executed at every point: {short[:5]}")
            if skipped > 0.5 * (skipped + judged):
                raise V.ToolFailure(f"too many accuracy decisions skipped as not O(1): {skipped} of {skipped + judged}")
        # keep the evidence readable: per-instantiation cells are summarised, clause cells are listed
        oc.cov = {k: v for k, v in oc.cov.items() if not k.startswith("call|")}
        rule = ("one evaluation = one (callable, point) event with all its dr calls validated by TLC against the exact reference "
                "semantics; cells = clause decided per call (clause|...), accuracy decisions skipped outside the O(1) domain "
                "(skipped|...), points per callable (point|...); distinct_nontrivial = number of non-empty cells")
        rc = oc.finish("model_checking", rule, ASSUME,
                       extra_cov={"callables": [FNS[m["fn_id"]][0] for _, m, _ in traces],
                                  "dr_instantiations": len(calls), "dr_calls_validated": sum(calls.values()),
                                  "accuracy_decisions": judged, "accuracy_skipped_not_O1": skipped,
                                  "argument_types": ["SO3d", "SE2d", "SE3d", "Bundle<SO3d,Vector3d>", "Vector2d", "Vector3d",
                                                     "VectorXd", "double", "std::vector<SO3d>", "std::vector<VectorXd> (ragged and equal-length)",
                                                     "std::vector<std::vector<VectorXd>> (ragged)"],
                                  "checker_cmd": "java tlc2.TLC -config TraceDiff.cfg TraceDiff.tla (one process per trace chunk)"})
        if partial and rc == 0:
            raise V.ToolFailure("partial run (VERIF_C08_FNS set): no violation among the selected callables; not a verdict for C08")
        return rc
    finally:
        shutil.rmtree(workdir, ignore_errors=True)
