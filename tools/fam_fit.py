"""C14 (curve construction meets its specification): trace validation of the "fit" harness family against
spec/TraceFit.tla.  The harness (harness/fit.cpp, one part per translation unit) runs fit_spline_1d, fit_spline,
fit_bspline, dubins_curve and reparameterize_spline of the real library; TLC decides every clause in exact
arithmetic on what the library returned (see tools/notes_C14.md)."""
import concurrent.futures as cf
import json
import os
import shutil
import subprocess

import verif as V

# harness parts (harness/fit.cpp -DVH_PART=n): name, extra compile flags, lines per TLC process
PARTS = {
    0: dict(name="fit_spline_1d", flags=(), chunk=36),
    1: dict(name="fit_spline SO3", flags=(), chunk=3),
    2: dict(name="fit_spline SE2", flags=(), chunk=3),
    3: dict(name="fit_spline SE3", flags=(), chunk=2),
    4: dict(name="fit_spline R3/R1", flags=(), chunk=5),
    # every library call runs in a forked child of the harness; fit_bspline additionally under AddressSanitizer, so
    # that an out-of-bounds access is recorded as "the call did not return normally" instead of silently corrupting the heap
    5: dict(name="fit_bspline", flags=("-fsanitize=address", "-fno-omit-frame-pointer"), chunk=48),
    6: dict(name="dubins_curve", flags=(), chunk=8),
    7: dict(name="reparameterize_spline", flags=(), chunk=6),
}
# cases per part (the harness multiplies by the number of spline specifications / groups of the part)
TIERS = {
    "quick": {0: 48, 1: 6, 2: 6, 3: 6, 4: 6, 5: 12, 6: 60, 7: 36},
    "thorough": {0: 1152, 1: 216, 2: 216, 3: 144, 4: 216, 5: 600, 6: 3000, 7: 720},
}
CHUNK_SCALE = {"quick": 1, "thorough": 4}
# parallel TLC processes (one per trace chunk, -workers 1 each)
JOBS = int(os.environ.get("VERIF_C14_JOBS", str(V.NCPU)))
# coverage cells that must be non-empty (no vacuity): prefixes of "op|stratum" keys
REQUIRED = ["fit1d|PL|", "fit1d|FDC11|", "fit1d|FDC22|", "fit1d|FDC12|", "fit1d|MD522|", "fit1d|MD533|", "fit1d|MD622|",
            "fit1d|MD633|", "fit1d|MD644|",
            "fit|SO3|PL|", "fit|SO3|FDC11|", "fit|SO3|FDC22|", "fit|SO3|MD633|", "fit|SE2|FDC11|", "fit|SE3|FDC22|",
            "fit|SE3|MD633|", "fit|R|PL|", "fit|R|FDC11|", "fit|R|MD533|", "fit|R|MD633|",
            "bspline|SO3|", "bspline|R|", "bspline|SE2|",
            "dubins|K3|LSL|", "dubins|K3|RSR|", "dubins|K3|LSR|", "dubins|K3|RSL|", "dubins|K3|RLR|", "dubins|K3|LRL|",
            "dubins.cand|best.verified|equal", "dubins.geom|boundary", "dubins.geom|interior",
            "reparam|moving|sv=0|", "reparam|moving|sv>0|ev=0", "reparam|moving|sv>0|ev>0", "reparam|moving|sv>0|ev=inf",
            "reparam|still|"]
for _dc in ("dt<.03", "dt<.1", "dt<.3", "dt<1", "dt<10", "dt<=100"):
    REQUIRED += [f"fit1d|FDC22|{_dc}|", f"fit1d|MD633|{_dc}|", f"fit1d|MD533|{_dc}|"]
REQUIRED += ["fit1d|FDC11|dt<.03|r1e3", "fit1d|PL|dt<.1|r1e3", "fit1d|MD633|dt<1|r10"]

ASSUME = [
    "every clause is decided by TLC in exact rational arithmetic on the values the library returned (spec/TraceFit.tla); "
    "the constraint system of fit_spline_1d is rebuilt in the specification from the definition of a piecewise Bernstein polynomial",
    "matrix exponentials on SE(2)/SE(3)/SO(3) come from spec/RFun.tla (certified, error < 2^-128)",
    "inputs are a seeded stratified sample (specification x number of points 2..40 x sampling pattern 1e-2..1e2 x neighbouring ratio; "
    "polar grid of Dubins targets x headings x radii), not all inputs; the trace spec re-derives domain membership and stratum",
    "C14.dubins.min (kind W): candidates come from an untrusted textbook implementation inside the harness; a candidate is verified by "
    "the specification (it must reach the target to 1e-9) before its length is compared; a missed candidate can hide a violation, never raise a false one",
    "returned Splines are observed through their public operator(); knot times read from the object only select where to evaluate",
    "a row a.x=b of fit_spline_1d holds 'to 1e-6 relative' when |a.x-b| <= 1e-6(|a|_1 |x|_inf + |b|); "
    "'onto [t_min,t_max]' for reparameterize_spline is read as non-decreasing with s(0)=t_min and s(T)=t_max (upward jumps are not judged)",
    "TLC, the JVM and the BigRat/RFun Java overrides (differentially tested) are trusted",
]


def exe_of(part):
    return V.build_one("fit.cpp", [f"VH_PART={part}"], extra_flags=PARTS[part]["flags"])


def run_harness(exe, args, out):
    env = dict(os.environ)
    env["ASAN_OPTIONS"] = "detect_leaks=0:abort_on_error=0:exitcode=1"
    r = subprocess.run([exe] + args + ["--out", out], capture_output=True, text=True, timeout=1800, env=env)
    if r.returncode != 0:
        raise V.ToolFailure(f"harness {exe} {' '.join(args)} failed rc={r.returncode}: {r.stderr[-1000:]}")


def summarize(ev):
    """a short human-readable form of an event for the replay / evidence files"""
    out = {}
    for k, x in ev.items():
        y = V.dequad(x)
        if isinstance(y, list) and len(json.dumps(y)) > 1500:
            out[k] = {"len": len(y), "head": y[:4]}
        else:
            out[k] = y
    return out


def validate(oc, traces, workdir, scale=1, timeout=3000):
    work = []
    for path, meta in traces:
        chunks, lines = V.split_trace(path, PARTS[meta["part"]]["chunk"] * scale)
        for cp, first in chunks:
            work.append((cp, first, meta, lines))
    work.sort(key=lambda w: -os.path.getsize(w[0]))
    with cf.ThreadPoolExecutor(JOBS) as ex:
        futs = {ex.submit(V.validate_chunk, "TraceFit", "TraceFit.cfg", cp, workdir, timeout): (cp, first, meta, lines)
                for cp, first, meta, lines in work}
        for f in cf.as_completed(futs):
            cp, first, meta, lines = futs[f]
            v, r = f.result()
            oc.states += r["distinct"]
            oc.transitions += max(r["states"] - 1, 0)
            oc.traces += 1
            oc.events += v["lines"]
            oc.add_cov(v.get("cov") or {})
            for b in v["bad"]:
                ev = json.loads(lines[first + b["line"] - 1])
                b2 = dict(b)
                b2["line"] = first + b["line"]
                b2["part"] = meta["part"]
                if b["clause"].startswith("TOOL."):
                    raise V.ToolFailure(f"harness produced an input outside the domain / inconsistent samples: {b2} in {cp}")
                payload = dict(meta)
                payload["line"] = meta.get("orig_line", first + b["line"])
                payload["event"] = summarize(ev)
                oc.bad_step(b2, payload)
            os.remove(cp)
            vp = cp + ".verdict.json"
            if os.path.exists(vp):
                os.remove(vp)
    for path, meta in traces:
        with open(path) as fh:
            for i, ln in enumerate(fh):
                if i == 1:
                    oc.samples.append(summarize(json.loads(ln)))


def one_line_trace(part, n, seed, line, out):
    """re-run the (deterministic) harness part and keep one event"""
    run_harness(exe_of(part), ["--n", str(n), "--seed", str(seed)], out)
    lines = open(out).read().splitlines()
    if not (1 <= line <= len(lines)):
        raise V.ToolFailure(f"line {line} outside the regenerated trace of part {part} ({len(lines)} lines)")
    with open(out, "w") as fh:
        fh.write(lines[line - 1] + "\n")


def witnesses(oc, prop, workdir):
    """witness cases of the open known findings of this property: {"family":"fit","part":p,"n":n,"seed":s,"line":l}"""
    traces = []
    for i, ent in enumerate(oc.known["open"]):
        w = ent.get("witness")
        if ent.get("property") != prop or not w or w.get("family") != "fit":
            continue
        out = os.path.join(workdir, f"witness_{i}.ndjson")
        one_line_trace(w["part"], w["n"], w["seed"], w["line"], out)
        traces.append((out, {"family": "fit", "part": w["part"], "n": w["n"], "seed": w["seed"], "witness_of": i,
                            "orig_line": w["line"]}))
    return traces


def extra_known(oc):
    """development aid: VERIF_KNOWN_EXTRA=<json file> adds open known-finding entries (same format as
    known_findings.json) for this run only, e.g. to see what a mutant adds on top of the findings of the unchanged tree"""
    p = os.environ.get("VERIF_KNOWN_EXTRA")
    if p:
        extra = json.load(open(p))
        oc.known = {"open": list(oc.known.get("open", [])) + list(extra.get("open", [])), "fixed": oc.known.get("fixed", [])}


def check(prop, tier, seed, replay=None):
    oc = V.Outcome(prop, tier, seed)
    extra_known(oc)
    workdir = os.path.join(V.BUILD, "work", f"{prop}_{os.getpid()}")
    os.makedirs(workdir, exist_ok=True)
    traces = []
    try:
        if replay:
            rp = json.load(open(replay))
            part = rp["part"]
            out = os.path.join(workdir, "replay.ndjson")
            one_line_trace(part, rp["n"], rp["seed"], rp["line"], out)
            traces.append((out, {"family": "fit", "part": part, "n": rp["n"], "seed": rp["seed"], "replay_of": replay}))
            oc.known = {"open": [], "fixed": []}   # a replay reports what it sees
        else:
            plan = TIERS[tier]
            parts = sorted(plan)
            only = os.environ.get("VERIF_C14_PARTS")   # development aid: restrict the run to some harness parts
            if only:
                parts = [p for p in parts if str(p) in only.split(",")]
            with cf.ThreadPoolExecutor(min(JOBS, 8)) as ex:
                exes = list(ex.map(exe_of, parts))
            for part, exe in zip(parts, exes):
                out = os.path.join(workdir, f"part{part}.ndjson")
                run_harness(exe, ["--n", str(plan[part]), "--seed", str(seed)], out)
                traces.append((out, {"family": "fit", "part": part, "what": PARTS[part]["name"], "n": plan[part], "seed": seed}))
            traces += witnesses(oc, prop, workdir)
        validate(oc, traces, workdir, 1 if replay else CHUNK_SCALE[tier])
        missing = []
        if not replay and not os.environ.get("VERIF_C14_PARTS"):
            for pre in REQUIRED:
                if not any(k.startswith(pre) and v > 0 for k, v in oc.cov.items()):
                    missing.append(pre)
            if missing:
                V.log("cells visited: " + json.dumps(dict(sorted(oc.cov.items()))))
                raise V.ToolFailure(f"coverage cells never visited (vacuity guard): {missing}")
        # replay files are capped by the driver: put one rejection per (operation, clause) first, then one per stratum
        seen1, seen2, first, second, rest = set(), set(), [], [], []
        for v in oc.violations:
            b = v[0]
            k1, k2 = (b.get("op"), b.get("clause")), (b.get("op"), b.get("clause"), b.get("stratum"))
            if k1 not in seen1:
                first.append(v)
            elif k2 not in seen2:
                second.append(v)
            else:
                rest.append(v)
            seen1.add(k1)
            seen2.add(k2)
        oc.violations = first + second + rest
        # compact overview of everything that was rejected (stderr; the interface lines follow in finish())
        table = {}
        for b, _ in oc.violations:
            table.setdefault((b.get("op"), b.get("clause")), {}).setdefault(b.get("stratum"), 0)
            table[(b.get("op"), b.get("clause"))][b.get("stratum")] += 1
        for (op, clause), st in sorted(table.items()):
            V.log(f"  rejected {op} {clause}: " + ", ".join(f"{k} x{v}" for k, v in sorted(st.items())))
        oc.extra["rejected_by_clause_and_stratum"] = {f"{op} {clause}": st for (op, clause), st in sorted(table.items())}
        # observation (never a verdict): lp2d::solve against the exact LP definition of spec/LP2D.tla, see tools/obs_lp2d.py
        if not replay and not os.environ.get("VERIF_C14_PARTS") and not os.environ.get("VERIF_NO_LP2D"):
            try:
                import obs_lp2d
                obs = obs_lp2d.observe(n=1500 if tier == "quick" else 20000, seed=seed)
                oc.extra["lp2d_observation"] = obs
                V.log(f"  observation lp2d: {obs.get('programs')} programs, {obs.get('programs_with_a_difference')} differences from spec/LP2D.tla "
                      f"(design model holds: {obs.get('design_model', {}).get('holds')})")
            except Exception as exc:   # an observation must never decide the check
                oc.extra["lp2d_observation"] = {"error": str(exc)[:500]}
                V.log(f"  observation lp2d failed: {str(exc)[:200]}")
        rule = ("one evaluation = one recorded library call (a whole fit / curve) validated by TLC against the relational "
                "specification; cells = operation | stratum re-derived by the trace spec (specification, smallest sampling interval, "
                "largest neighbouring ratio; Dubins word actually returned; start/end speed class); distinct_nontrivial = non-empty cells")
        rc = oc.finish("model_checking", rule, ASSUME,
                       extra_cov={"parts": [PARTS[m["part"]]["name"] for _, m in traces],
                                  "checker_cmd": "java tlc2.TLC -config TraceFit.cfg TraceFit.tla (one process per trace chunk)"})
    finally:
        shutil.rmtree(workdir, ignore_errors=True)
    return rc
