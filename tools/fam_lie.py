"""Checks decided by trace validation of the "lie" harness family against spec/TraceLie.tla:
C01 C02 C03 C04 C05 (and the Bundle/vector parts of C06 reuse the same machinery)."""
import concurrent.futures as cf
import json
import os
import subprocess

import verif as V

# harness group numbers (harness/lie.cpp) and their descriptors
GROUPS = {
    0: "SO2", 1: "SO3", 2: "SE2", 3: "SE3", 4: "C1", 5: "Gal", 6: "SEK3:2", 7: "SEK3:1", 8: "R:3",
    9: "B(SO3,R:3)", 10: "B(SE2,SO2,R:2,SE3)", 11: "B(B(SO3,R:2),C1,SE2)", 12: "B(R:1,SO2,C1)",
    13: "B(SO3,SO3)", 14: "B(Gal,R:2)", 15: "B(SEK3:2,SO2)", 16: "scalar", 17: "R:5", 18: "SEK3:3", 19: "SEK3:4",
}
NO_HESS = {5, 6, 7, 14, 15, 18, 19}

# per property: family, (group, scalar) list and sample count per tier, chunk size (lines per TLC process)
PLAN = {
    "C01": dict(fam="c01", chunk=300,
                quick=dict(n=44, gs=[(g, "d") for g in (0, 1, 2, 3, 4, 5, 6, 7, 9, 10, 11, 18)] + [(g, "f") for g in (0, 1, 2, 3, 4, 5, 6)]),
                thorough=dict(n=660, gs=[(g, "d") for g in list(range(16)) + [18, 19]] + [(g, "f") for g in list(range(12)) + [18]])),
    "C02": dict(fam="c02", chunk=100,
                quick=dict(n=78, gs=[(g, "d") for g in (0, 1, 2, 3, 4, 5, 6, 10, 18)] + [(g, "f") for g in (0, 1, 2, 3, 4, 5, 6)]),
                thorough=dict(n=1560, gs=[(g, "d") for g in list(range(16)) + [18, 19]] + [(g, "f") for g in list(range(12)) + [18]])),
    "C03": dict(fam="c03", chunk=100,
                quick=dict(n=44, gs=[(g, "d") for g in (0, 1, 2, 3, 4, 5, 6, 8, 10, 11, 12, 18)] + [(g, "f") for g in (1, 2, 3, 5)]),
                thorough=dict(n=660, gs=[(g, "d") for g in range(20)] + [(g, "f") for g in list(range(12)) + [18]])),
    "C04": dict(fam="c04", chunk=48,
                quick=dict(n=78, gs=[(g, "d") for g in (0, 1, 2, 3, 4, 5, 6, 11, 18)] + [(g, "f") for g in (1, 2, 3, 5)]),
                thorough=dict(n=780, gs=[(g, "d") for g in list(range(16)) + [18, 19]] + [(g, "f") for g in range(8)])),
    "C05": dict(fam="c05", chunk=5,
                quick=dict(n=54, gs=[(g, "d") for g in (0, 1, 2, 3, 4, 9, 11)]),
                thorough=dict(n=270, gs=[(g, "d") for g in (0, 1, 2, 3, 4, 8, 9, 10, 11, 12, 13)])),
}

PLAN["C06"] = dict(fam="c06", chunk=60,
                   quick=dict(n=18, gs=[(g, "d") for g in (8, 9, 10, 11, 12, 13, 14, 15, 16, 17)] + [(g, "f") for g in (9, 11, 16)]),
                   thorough=dict(n=400, gs=[(g, "d") for g in (8, 9, 10, 11, 12, 13, 14, 15, 16, 17)] + [(g, "f") for g in (8, 9, 10, 11, 12, 13, 16, 17)]))

ASSUME = [
    "oracle: matrix product / inverse / power series of the documented matrix forms over exact rationals (spec/Groups.tla, RFun.tla); truncation+rounding error of the oracle < 2^-150",
    "TLC, the JVM and the BigRat Java override (differentially tested against the plain TLA+ definitions) are trusted",
    "inputs are a stratified sample (strata in DESIGN.md 3.5), not all elements; the trace spec re-derives domain membership and stratum from the logged operands",
]


def harness_jobs(gs):
    return [("lie.cpp", [f"VH_GROUP={g}", f"VH_SCALAR={'float' if sc == 'f' else 'double'}"]) for g, sc in gs]


def run_harness(exe, args, out):
    r = subprocess.run([exe] + args + ["--out", out], capture_output=True, text=True, timeout=600)
    if r.returncode != 0:
        raise V.ToolFailure(f"harness {exe} {' '.join(args)} failed rc={r.returncode}: {r.stderr[-1000:]}")


def validate_traces(oc, traces, chunk, workdir, timeout=1500):
    """traces: list of (path, meta) ; validates all with TraceLie on up to NCPU processes"""
    work = []
    for path, meta in traces:
        chunks, lines = V.split_trace(path, chunk)
        for cp, first in chunks:
            work.append((cp, first, meta, lines))
    work.sort(key=lambda w: -os.path.getsize(w[0]))   # longest first
    with cf.ThreadPoolExecutor(V.NCPU) as ex:
        futs = {ex.submit(V.validate_chunk, "TraceLie", "TraceLie.cfg", cp, workdir, timeout): (cp, first, meta, lines)
                for cp, first, meta, lines in work}
        for f in cf.as_completed(futs):
            cp, first, meta, lines = futs[f]
            v, r = f.result()
            oc.states += r["distinct"]
            oc.transitions += max(r["states"] - 1, 0)
            oc.traces += 1
            oc.events += v["lines"]
            oc.add_cov(v.get("cov") or {})
            for b in v["bad"]:
                ev = json.loads(lines[first + b["line"] - 1])
                b2 = dict(b)
                b2["line"] = first + b["line"]
                b2["g"] = ev.get("g")
                b2["sc"] = ev.get("sc")
                if b["clause"].startswith("TOOL."):
                    raise V.ToolFailure(f"harness produced an operand outside the domain / unknown op: {b2} in {cp}")
                payload = dict(meta)
                payload["line"] = first + b["line"]
                payload["event"] = {k: V.dequad(x) for k, x in ev.items()}
                oc.bad_step(b2, payload)
            os.remove(cp)
            vp = cp + ".verdict.json"
            if os.path.exists(vp):
                os.remove(vp)
    # a few written-out samples
    for path, meta in traces[:3]:
        with open(path) as fh:
            for i, ln in enumerate(fh):
                if i in (2, 40):
                    ev = json.loads(ln)
                    oc.samples.append({k: V.dequad(x) for k, x in ev.items()})


def witnesses(oc, prop, workdir):
    """explicit-operand witness programs of the open known findings of this property"""
    traces = []
    for i, ent in enumerate(oc.known["open"]):
        if ent.get("property") != prop or "witness" not in ent:
            continue
        w = ent["witness"]
        if w.get("family") != "lie":
            continue
        exe = V.build_one(*harness_jobs([(w["g"], w["sc"])])[0])
        prog = os.path.join(workdir, f"witness_{i}.prog")
        with open(prog, "w") as fh:
            fh.write("\n".join(w["prog"]) + "\n")
        out = os.path.join(workdir, f"witness_{i}.ndjson")
        run_harness(exe, ["--prog", prog], out)
        traces.append((out, {"family": "lie", "witness_of": i, "g": w["g"], "sc": w["sc"], "prog": w["prog"]}))
    return traces


def lattice_traces(oc, prop, tier, seed, workdir):
    """C01/C03: the exactly representable finite subgroups (spec/LatticeGroups.tla, axioms checked exhaustively by TLC)
    replayed on the real library: all pairs for SO2/SO3/SE2, sampled pairs for SE3/Galilei/SE_K_3; compared bit-exactly."""
    import itertools
    import random
    import re
    r = V.run_tlc("LatticeGroups", "LatticeGroups.cfg", workdir, workers=1, timeout=900)
    if "No error has been found" not in r["out"]:
        raise V.ToolFailure("LatticeGroups: an ASSUME failed or TLC crashed: " + r["out"][-1500:])
    m = re.search(r'<<\s*"LATTICE",\s*(\{.*?\}),\s*(\{.*?\})\s*>>', r["out"], re.S)
    if not m:
        raise V.ToolFailure("LatticeGroups printed no lattice")
    conv = lambda s: eval(s.replace("<<", "(").replace(">>", ")").replace("{", "[").replace("}", "]"))
    so3 = [tuple(x / 2.0 for x in q) for q in conv(m.group(1))]
    so2 = [tuple(float(x) for x in z) for z in conv(m.group(2))]
    oc.states += max(r["distinct"], 2)
    oc.extra["lattice"] = {"SO3_stored_elements": len(so3), "SO2_elements": len(so2),
                           "axioms_checked_exhaustively_by_TLC": 14}
    rng = random.Random(seed * 31 + 7)
    t2 = list(itertools.product((-1.0, 0.0, 1.0), repeat=2))
    t3 = list(itertools.product((-1.0, 0.0, 1.0), repeat=3))
    elems = {
        0: [list(z) for z in so2],
        1: [list(q) for q in so3],
        2: [list(t) + list(z) for t in t2 for z in so2],
        3: [list(t) + list(q) for t in t3 for q in so3],
        5: [list(v) + list(p) + [tau] + list(q) for v in t3[::5] for p in t3[::7] for tau in (-1.0, 0.0, 1.0) for q in so3],
        6: [list(p1) + list(p2) + list(q) for p1 in t3[::5] for p2 in t3[::4] for q in so3],
    }
    quick = tier == "quick"
    case = "c01x" if prop == "C01" else "c03x"
    traces = []
    exhaustive = []
    for g, el in elems.items():
        pairs = list(itertools.product(range(len(el)), repeat=2))
        full = len(pairs) <= (500 if quick else 6000)
        if not full:
            pairs = rng.sample(pairs, 300 if quick else 6000)
        else:
            exhaustive.append(GROUPS[g])
        lines = []
        for i, j in pairs:
            k = rng.randrange(len(el))
            if case == "c01x":
                lines.append("c01x " + " ; ".join(",".join(repr(x) for x in el[idx]) for idx in (i, j, k)))
            else:
                dofs = {0: 1, 1: 3, 2: 3, 3: 6, 5: 10, 6: 9}[g]
                tan = lambda: ",".join(str(float(rng.randint(-2, 2))) for _ in range(dofs))
                lines.append("c03x " + ",".join(repr(x) for x in el[i]) + " ; " + tan() + " ; " + tan() + " ; " + tan())
        exe = V.build_one(*harness_jobs([(g, "d")])[0])
        prog = os.path.join(workdir, f"lattice_g{g}.prog")
        with open(prog, "w") as fh:
            fh.write("\n".join(lines) + "\n")
        out = os.path.join(workdir, f"lattice_g{g}.ndjson")
        run_harness(exe, ["--prog", prog], out)
        traces.append((out, {"family": "lie", "g": g, "sc": "d", "lattice": True, "prog": lines[:3]}))
    oc.extra["lattice"]["all_pairs_replayed_for"] = exhaustive
    return traces


def bundle_layout_model(oc, tier, workdir):
    """C06 design model: index arithmetic of Bundle (prefix sums, Hessian block placement) checked by TLC for every
    composition up to MaxLen; two spec mutants must be rejected."""
    info = []
    for variant, must_hold in (("code", True), ("rep_for_dof", False), ("hess_col", False)):
        cfg = os.path.join(workdir, f"BundleLayout_{variant}.cfg")
        maxlen = (3 if tier == "quick" else 4) if must_hold else 2
        with open(cfg, "w") as fh:
            fh.write(f'CONSTANTS\n  MaxLen = {maxlen}\n  Variant = "{variant}"\nINIT Init\nNEXT Next\nINVARIANT LayoutOK\nINVARIANT HessOK\nCHECK_DEADLOCK FALSE\n')
        r = V.run_tlc("BundleLayout", cfg, workdir, workers=4, timeout=1800)
        ok = "No error has been found" in r["out"]
        viol = "is violated" in r["out"]
        if not ok and not viol:
            raise V.ToolFailure("TLC failed on BundleLayout: " + r["out"][-1500:])
        oc.states += r["distinct"]
        oc.transitions += max(r["states"] - 1, 0)
        info.append({"model": "BundleLayout", "variant": variant, "MaxLen": maxlen, "distinct_states": r["distinct"],
                     "result": "holds" if ok else "violated"})
        if must_hold and not ok:
            oc.bad_step({"clause": "C06.blocks.model", "op": "model", "stratum": variant, "err": "layout invariant violated", "tol": "exact"},
                        {"family": "lie", "model": "BundleLayout", "tlc_tail": r["out"][-3000:]})
        if not must_hold and ok:
            raise V.ToolFailure(f"BundleLayout spec mutant {variant} was not rejected: the invariants are vacuous")
    oc.extra["design_models"] = info


def check(prop, tier, seed, replay=None):
    plan = PLAN[prop]
    oc = V.Outcome(prop, tier, seed)
    workdir = os.path.join(V.BUILD, "work", f"{prop}_{os.getpid()}")
    os.makedirs(workdir, exist_ok=True)
    traces = []
    if replay:
        rp = json.load(open(replay))
        g, sc = rp["g"], rp["sc"]
        exe = V.build_one(*harness_jobs([(g, sc)])[0])
        out = os.path.join(workdir, "replay.ndjson")
        if "prog" in rp:
            prog = os.path.join(workdir, "replay.prog")
            open(prog, "w").write("\n".join(rp["prog"]) + "\n")
            run_harness(exe, ["--prog", prog], out)
        else:
            run_harness(exe, ["--fam", rp["fam"], "--n", str(rp["n"]), "--seed", str(rp["seed"])], out)
            lines = open(out).read().splitlines()
            with open(out, "w") as fh:
                fh.write(lines[rp["line"] - 1] + "\n")
        traces.append((out, {"family": "lie", "g": g, "sc": sc, "replay_of": replay}))
        oc.known = {"open": [], "fixed": []}   # a replay reports what it sees
    else:
        cfg = plan[tier]
        exes = V.build_many(harness_jobs(cfg["gs"]))
        for (g, sc), exe in zip(cfg["gs"], exes):
            out = os.path.join(workdir, f"g{g}_{sc}.ndjson")
            run_harness(exe, ["--fam", plan["fam"], "--n", str(cfg["n"]), "--seed", str(seed)], out)
            traces.append((out, {"family": "lie", "fam": plan["fam"], "g": g, "sc": sc, "n": cfg["n"], "seed": seed,
                                 "group": GROUPS[g]}))
        if prop in ("C01", "C03"):
            traces += lattice_traces(oc, prop, tier, seed, workdir)
        if prop == "C05":
            # generic helpers d_matrix_product / d2_fog (clauses C05.dprod, C05.fog)
            exe = V.build_one("derivs.cpp", [])
            out = os.path.join(workdir, "derivs.ndjson")
            run_harness(exe, ["--n", "1" if tier == "quick" else "12", "--seed", str(seed)], out)
            traces.append((out, {"family": "lie", "harness": "derivs", "seed": seed}))
        if prop == "C06":
            bundle_layout_model(oc, tier, workdir)
            # dynamically sized Eigen vectors (sizes 0..6) through the free-function interface
            exe = V.build_one("lie_dyn.cpp", [])
            out = os.path.join(workdir, "dyn.ndjson")
            run_harness(exe, ["--n", "4" if tier == "quick" else "60", "--seed", str(seed)], out)
            traces.append((out, {"family": "lie", "harness": "lie_dyn", "seed": seed}))
        traces += witnesses(oc, prop, workdir)
    validate_traces(oc, traces, plan["chunk"], workdir)
    rule = ("one evaluation = one recorded library call validated by TLC against the exact reference semantics; "
            "cells = (operation | input stratum) re-derived by the trace spec; distinct_nontrivial = number of non-empty cells")
    rc = oc.finish("model_checking", rule, ASSUME,
                   extra_cov={"groups": [f"{GROUPS[m['g']]}/{m['sc']}" for _, m in traces if "g" in m],
                              "checker_cmd": "java tlc2.TLC -config TraceLie.cfg TraceLie.tla (one process per trace chunk)"})
    import shutil
    shutil.rmtree(workdir, ignore_errors=True)
    return rc
