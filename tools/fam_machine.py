"""C15: representation invariants and accuracy over histories.

TLC (-simulate on spec/MachineGen.tla) generates random operation programs over a register file; the harness
replays them on the real library, logging every produced element; spec/TraceMachine.tla carries the exact
group-theoretic value of every register through the same history and checks finite / unit constraint
(n+1)*1e-14 / canonical sign / accuracy (n+1)*1e-13 at every step.  Long homogeneous chains and fixed-step
boost::odeint integrations of a constant body velocity are part of the programs.
"""
import concurrent.futures as cf
import json
import math
import os
import random
import re
import shutil
import subprocess

import verif as V
from fam_lie import GROUPS

REP = {0: 2, 1: 4, 2: 4, 3: 7, 4: 2, 5: 11, 6: 10, 8: 3, 9: 7, 10: 15, 11: 12, 13: 8, 18: 13}
DOF = {0: 1, 1: 3, 2: 3, 3: 6, 4: 2, 5: 10, 6: 9, 8: 3, 9: 6, 10: 12, 11: 10, 13: 6, 18: 12}
# coefficient layouts: list of (kind, offset, n)
LAYOUT = {
    0: [("cplx", 0)], 1: [("quat", 0)], 2: [("tr", 0, 2), ("cplx", 2)], 3: [("tr", 0, 3), ("quat", 3)], 4: [("conf", 0)],
    5: [("tr", 0, 7), ("quat", 7)], 6: [("tr", 0, 6), ("quat", 6)], 8: [("tr", 0, 3)], 9: [("quat", 0), ("tr", 4, 3)],
    10: [("tr", 0, 2), ("cplx", 2), ("cplx", 4), ("tr", 6, 2), ("tr", 8, 3), ("quat", 11)],
    11: [("quat", 0), ("tr", 4, 2), ("conf", 6), ("tr", 8, 2), ("cplx", 10)], 13: [("quat", 0), ("quat", 4)],
    18: [("tr", 0, 9), ("quat", 9)],
}
ASSUME = [
    "exact values are carried as rational matrices rounded to 2^-400 per step (error budget far below 1e-13)",
    "history length n of a register = sum of the history lengths of its operands + the operations applied (rplus/+= count 2, an odeint step 2*(stages+1))",
    "double precision only (the statement's bounds are for double); programs and chains are samples of all histories",
    "TLC, JVM, BigRat/RFun overrides and the recording code are trusted",
]
STEPPERS = ["euler", "rk4", "ck54", "dopri5", "fehlberg78"]


def rand_coeffs(rng, g, tscale=2.0):
    c = [0.0] * REP[g]
    for item in LAYOUT[g]:
        if item[0] == "tr":
            for i in range(item[2]):
                c[item[1] + i] = rng.uniform(-tscale, tscale)
        elif item[0] == "quat":
            ax = [rng.gauss(0, 1) for _ in range(3)]
            n = math.sqrt(sum(a * a for a in ax))
            th = rng.uniform(0, math.pi)
            q = [a / n * math.sin(th / 2) for a in ax] + [math.cos(th / 2)]
            n2 = math.sqrt(sum(a * a for a in q))
            for i in range(4):
                c[item[1] + i] = q[i] / n2
        elif item[0] == "cplx":
            th = rng.uniform(-math.pi, math.pi)
            z = [math.sin(th), math.cos(th)]
            n2 = math.hypot(*z)
            c[item[1]], c[item[1] + 1] = z[0] / n2, z[1] / n2
        else:
            th, r = rng.uniform(-math.pi, math.pi), math.exp(rng.uniform(-0.3, 0.3))
            c[item[1]], c[item[1] + 1] = r * math.sin(th), r * math.cos(th)
    return c


ROT_IDX = {0: [0], 1: [0, 1, 2], 2: [2], 3: [3, 4, 5], 4: [1], 5: [7, 8, 9], 6: [6, 7, 8], 8: [], 9: [0, 1, 2],
           10: [2, 3, 9, 10, 11], 11: [0, 1, 2, 6, 9], 13: [0, 1, 2, 3, 4, 5], 18: [9, 10, 11]}


def rand_tangent(rng, g, scale=1.0, tscale=None):
    """rotation components scaled by `scale`, translation-like components by `tscale` (default: the same)"""
    ts = scale if tscale is None else tscale
    return [rng.uniform(-1, 1) * (scale if i in ROT_IDX[g] else ts) for i in range(DOF[g])]


def hexs(xs):
    return " ".join(float(x).hex() for x in xs)


def tlc_programs(n_traces, length, seed, workdir):
    cfg = os.path.join(workdir, "MachineGen.cfg")
    with open(cfg, "w") as fh:
        fh.write(f"CONSTANT MaxLen = {length}\nINIT Init\nNEXT Next\nINVARIANT Emit\nCHECK_DEADLOCK FALSE\n")
    r = V.run_tlc("MachineGen", cfg, workdir, workers=2, timeout=600, simulate=f"num={n_traces}",
                  extra=["-depth", str(length + 1), "-seed", str(seed)])
    progs = []
    for m in re.finditer(r'<<\s*"PROG",\s*(<<.*?>>)\s*>>\s*(?=\n<<\s*"PROG"|\n[A-Z]|\Z)', r["out"], re.S):
        txt = m.group(1).replace("<<", "[").replace(">>", "]")
        try:
            progs.append(eval(txt))
        except Exception:
            pass
    return progs, r


def program_lines(rng, g, ops):
    lines = ["reset"]
    for r_ in range(4):
        lines.append(f"sete {r_} {hexs(rand_coeffs(rng, g))}")
        lines.append(f"sett {r_} {hexs(rand_tangent(rng, g, rng.choice([1e-6, 2e-5, 9e-5, 2e-4, 1e-2, 0.1, 1.0, 1.0, 4.0, 9.0, 14.0]), rng.choice([None, 1.0, 0.3])))}")
    for op, a, b, c in ops:
        lines.append(f"{op} {a} {b} {c}")
    return lines


def tame_scalings(g, coeffs, tangent, N, rng):
    """C1 (and Bundles with a C1 part) has a scaling factor: a chain of N multiplications by r or N increments of
    log r = t leaves the range of double unless |log r| <= 20 / N (e^20 = 5e8).  The property's 'finite' presumes
    results that are representable; the chains therefore keep the accumulated scaling below e^20."""
    for item in LAYOUT[g]:
        if item[0] == "conf":
            th = rng.uniform(-math.pi, math.pi)
            r = math.exp(rng.uniform(-1, 1) * 20.0 / max(N, 1))
            coeffs[item[1]], coeffs[item[1] + 1] = r * math.sin(th), r * math.cos(th)
    for idx in SCALE_IDX.get(g, []):
        tangent[idx] = rng.uniform(-1, 1) * 20.0 / max(N, 1)
    return coeffs, tangent


# tangent coordinates that are the logarithm of a scaling factor (C1: coordinate 0; Bundle 11 has C1 at tangent offset 5)
SCALE_IDX = {4: [0], 11: [5]}


def chain_lines(rng, g, N, kind):
    e1, t0 = tame_scalings(g, rand_coeffs(rng, g, 0.01), rand_tangent(rng, g, 0.05), N, rng)
    lines = ["reset", f"sete 0 {hexs(rand_coeffs(rng, g))}", f"sete 1 {hexs(e1)}", f"sett 0 {hexs(t0)}"]
    if kind == "mul":
        lines.append(f"repeat {N} muleq 0 1 0")
    elif kind == "plus":
        lines.append(f"repeat {N} pluseq 0 0 0")
    elif kind == "plus_small":
        # increments whose rotation part sits in the small-angle branches of exp (|theta| ~ 1e-5 .. 1e-4)
        lines[3] = f"sett 0 {hexs(tame_scalings(g, list(e1), rand_tangent(rng, g, 8e-5, 0.5), N, rng)[1])}"
        lines.append(f"repeat {N} pluseq 0 0 0")
    elif kind == "ginvg":
        # x <- (x * y^-1) * y with a fresh y: the history grows by 3 per round (composing x with its own inverse
        # would triple it per round and overflow TLC's integers after 20 rounds)
        for _ in range(min(N, 300)):
            lines += ["inverse 2 1 0", "compose 0 0 2", "compose 0 0 1"]
    elif kind == "cast":
        for _ in range(min(N, 300)):
            lines += ["cast 2 0 0", "muleq 2 1 0", "copy 0 2 0"]
    return lines


def band_lines(rng, g, n):
    """exp / rplus of tangents whose rotation part lies in the two decades above the small-angle switch (closed forms
    such as (cos th - 1)/th lose eps/th there) with translation parts of size 1: one operation each, so the bound is
    the tightest the property states (2e-13 / 3e-13)"""
    lines = ["reset", f"sete 0 {hexs(rand_coeffs(rng, g))}"]
    for i in range(n):
        th = 10 ** (rng.uniform(-4.0, -3.4) if i % 3 else rng.uniform(-3.4, -2.0))
        t = rand_tangent(rng, g, 1.0, 1.0)
        rot = ROT_IDX[g]
        if rot:
            nrm = math.sqrt(sum(t[j] ** 2 for j in rot)) or 1.0
            for j in rot:
                t[j] *= th / nrm
        lines.append(f"sett 0 {hexs(t)}")
        lines.append("exp 1 0 0")
        lines.append("rplus 2 0 0")
    # rotation parts of one to four turns (the canonical sign q_w >= 0 must survive every multiple of 2 pi)
    for i in range(max(n // 2, 8)):
        th = rng.uniform(0.5, 8.5) * math.pi
        t = rand_tangent(rng, g, 1.0, 1.0)
        rot = ROT_IDX[g]
        if rot:
            nrm = math.sqrt(sum(t[j] ** 2 for j in rot)) or 1.0
            for j in rot:
                t[j] *= th / nrm
        lines.append(f"sett 1 {hexs(t)}")
        lines.append("exp 3 1 0")
        lines.append("rplus 4 0 1")
    return lines


def lift_lines(rng, g, n):
    """lifts SO2 -> SO3 / SE2 -> SE3 (and back) of elements at generic angles, at 0, at quarter turns and in a
    log-uniform band next to the half turn (where 1 + cos cancels)"""
    lines = ["reset"]
    off = {0: 0, 2: 2}[g]
    for i in range(n):
        c = rand_coeffs(rng, g)
        kind = i % 4
        if kind == 0:
            th = rng.uniform(-math.pi, math.pi)
        elif kind == 1:
            th = rng.choice([0.0, math.pi / 2, -math.pi / 2, math.pi, -math.pi])
        else:
            th = rng.choice([-1, 1]) * (math.pi - 10 ** rng.uniform(-8.0, -2.0))
        z = [math.sin(th), math.cos(th)]
        n2 = math.hypot(*z)
        c[off], c[off + 1] = z[0] / n2, z[1] / n2
        lines.append(f"sete 0 {hexs(c)}")
        lines.append("lift 1 0")
    return lines


def ode_lines(rng, g, quick):
    lines = ["reset", f"sete 0 {hexs(rand_coeffs(rng, g))}", f"sett 0 {hexs(rand_tangent(rng, g, 0.7))}"]
    for s in STEPPERS:
        for ns in ((1, 10) if quick else (1, 10, 100, 1000)):
            lines.append(f"ode {s} 1 0 0 {float(rng.choice([0.5, 1.0, 2.5])).hex()} {ns}")
    return lines


def check(prop, tier, seed, replay=None):
    oc = V.Outcome(prop, tier, seed)
    workdir = os.path.join(V.BUILD, "work", f"{prop}_{os.getpid()}")
    os.makedirs(workdir, exist_ok=True)
    rng = random.Random(seed * 104729 + 3)
    quick = tier == "quick"
    jobs = []   # (g, lines, every, meta)
    if replay:
        rp = json.load(open(replay))
        jobs.append((rp["g"], rp["prog"], rp.get("every", 1), {"replay_of": replay}))
        oc.known = {"open": [], "fixed": []}
    else:
        groups = [1, 3, 5, 0, 2, 9] if quick else [0, 1, 2, 3, 4, 5, 6, 9, 10, 11, 13, 18]
        progs, r = tlc_programs(6 if quick else 60, 14 if quick else 60, seed, workdir)
        if not progs:
            raise V.ToolFailure("MachineGen produced no programs: " + r["out"][-500:])
        oc.states += r["distinct"]
        uniq = list({json.dumps(p): p for p in progs}.values())
        rng.shuffle(uniq)
        per_group = 4 if quick else 40
        oc.samples.append({"tlc_program": uniq[0]})
        for gi, g in enumerate(groups):
            lines = []
            for p in uniq[gi * per_group:(gi + 1) * per_group] or uniq[:per_group]:
                lines += program_lines(rng, g, p)
            jobs.append((g, lines, 1, {"kind": "TLC programs"}))
            N = 1000 if quick else 100000
            every = 50 if quick else 500
            kinds = ("mul", "plus", "plus_small") if quick else ("mul", "plus", "plus_small", "ginvg", "cast")
            for kind in kinds:
                jobs.append((g, chain_lines(rng, g, N, kind), every, {"kind": f"chain {kind} x{N}"}))
            jobs.append((g, ode_lines(rng, g, quick), 1, {"kind": "odeint"}))
            jobs.append((g, band_lines(rng, g, 24 if quick else 300), 1, {"kind": "band above the small-angle switch"}))
            if g in (0, 2):
                jobs.append((g, lift_lines(rng, g, 24 if quick else 400), 1, {"kind": "lifts and projections"}))
        oc.extra["tlc_programs"] = len(uniq)
    exes = {g: e for g, e in zip(sorted({j[0] for j in jobs}),
                                 V.build_many([("machine.cpp", [f"VH_GROUP={g}", "VH_SCALAR=double"]) for g in sorted({j[0] for j in jobs})]))}

    def run_job(idx_job):
        idx, (g, lines, every, meta) = idx_job
        base = os.path.join(workdir, f"job{idx}")
        with open(base + ".prog", "w") as fh:
            fh.write("\n".join(lines) + "\n")
        out = base + ".ndjson"
        r = subprocess.run([exes[g], "--prog", base + ".prog", "--every", str(every), "--out", out], capture_output=True, text=True, timeout=1800)
        if r.returncode != 0:
            raise V.ToolFailure(f"machine harness failed (g={g}): {r.stderr[-500:]}")
        v, tr = V.validate_chunk("TraceMachine", "TraceMachine.cfg", out, workdir, 3000)
        return g, lines, every, meta, out, v, tr
    maxn = 0
    with cf.ThreadPoolExecutor(V.NCPU) as ex:
        for g, lines, every, meta, out, v, tr in ex.map(run_job, list(enumerate(jobs))):
            oc.states += tr["distinct"]
            oc.transitions += max(tr["states"] - 1, 0)
            oc.traces += 1
            oc.events += v["lines"]
            maxn = max(maxn, v.get("maxn", 0))
            oc.add_cov({f"{GROUPS[g]}|{k}": c for k, c in (v.get("cov") or {}).items()})
            evs = open(out).read().splitlines()
            for b in v["bad"]:
                if b["clause"].startswith("TOOL."):
                    raise V.ToolFailure(f"tool-level problem: {b} ({out})")
                ev = json.loads(evs[b["line"] - 1])
                b2 = dict(b)
                b2["g"], b2["sc"] = ev.get("g"), ev.get("sc")
                oc.bad_step(b2, {"family": "machine", "g": g, "prog": lines, "every": every, "line": b["line"],
                                 "event": {k: V.dequad(x) for k, x in ev.items()}, **meta})
    oc.extra["longest_history_n"] = maxn
    rule = ("one evaluation = one element produced by the library and compared with the exact value of the same history; "
            "cells = group|operation|sub-operation")
    rc = oc.finish("model_checking", rule, ASSUME, extra_cov={"checker_cmd": "TLC -simulate on MachineGen.tla; TLC on TraceMachine.tla"})
    shutil.rmtree(workdir, ignore_errors=True)
    return rc
