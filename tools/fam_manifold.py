"""C07 - manifold axioms for every Manifold model.

1. TLC checks the design model spec/Manifold.tla exhaustively (all histories up to MaxDepth over the object heap,
   all shapes in scope) and must REJECT each seeded spec mutant (no vacuity of the model-level invariants).
2. TLC (same module, Emit = TRUE) enumerates every history of length 4 per model kind; a seeded sample of them is
   bound to every Manifold model type of harness/manifold.cpp and to every shape (container sizes 0..4, every
   variant alternative, EVERY subset of fixed dimensions of the SubManifold models) and replayed on the real library.
3. TLC validates every recorded step with spec/TraceManifold.tla (exact rationals; oracle from spec/Groups.tla).
"""
import concurrent.futures as cf
import json
import os
import random
import re
import shutil
import subprocess
import threading

import verif as V

# harness model numbers (harness/manifold.cpp): name, kind of the design model, shapes (structural codes) to bind
MODELS = {
    0: ("SO2d", "L", [0]), 1: ("SO3d", "L", [0]), 2: ("SE2d", "L", [0]), 3: ("SE3d", "L", [0]), 4: ("C1d", "L", [0]),
    5: ("Galileid", "L", [0]), 6: ("SE_K_3<d,2>", "L", [0]), 7: ("Bundle<SO3d,Vector3d,SE2d>", "L", [0]),
    8: ("Vector3d", "L", [0]), 9: ("VectorXd", "L", list(range(5))), 10: ("double", "L", [0]),
    11: ("std::vector<SO3d>", "V", list(range(5))), 12: ("std::vector<SE2d>", "V", list(range(5))),
    13: ("std::vector<VectorXd>", "V", list(range(5))), 14: ("std::vector<double>", "V", list(range(5))),
    15: ("std::vector<std::variant<SO3d,Vector2d,double>>", "V", list(range(5))),
    16: ("std::vector<std::vector<SO2d>>", "V", list(range(5))),
    17: ("std::vector<SubManifold<SO3d>>", "V", list(range(5))),
    18: ("std::variant<SO3d,double,Vector2d>", "W", list(range(3))),
    19: ("std::variant<SE2d,std::vector<SO3d>,VectorXd,SE3d>", "W", list(range(4))),
    20: ("SubManifold<SO3d>", "S", list(range(8))), 21: ("SubManifold<SE2d>", "S", list(range(8))),
    22: ("SubManifold<SE3d>", "S", list(range(64))), 23: ("SubManifold<Vector4d>", "S", list(range(16))),
    24: ("SubManifold<Bundle<SO2d,Vector2d>>", "S", list(range(8))),
    25: ("AnyManifold(SO3d)", "A", [0]), 26: ("AnyManifold(SE3d)", "A", [0]),
    27: ("AnyManifold(std::vector<SE2d>)", "A", list(range(5))),
    28: ("AnyManifold(std::variant<SO3d,double,Vector2d>)", "A", list(range(3))),
    29: ("AnyManifold(SubManifold<SE2d>)", "A", list(range(8))),
    # ragged containers of run-time-dof elements nested in the other adaptors (shape mod 5 = container size)
    30: ("SubManifold<std::vector<VectorXd>>", "S", list(range(10))),
    31: ("AnyManifold(std::vector<VectorXd>)", "A", list(range(10))),
    32: ("std::variant<std::vector<VectorXd>,SO3d>", "W", [0, 2, 4, 6, 8, 1]),
}
# models that must be observed (dof, rplus, rt1, rminus) on a RAGGED container: elements of different run-time dof,
# the first one not the average (the spec derives the tag from the recorded values)
RAGGED_MODELS = (13, 15, 16, 17, 30, 31, 32)
# run-time-sized containers that must be observed with a ZERO-dof element (zero-length VectorXd / empty inner vector)
# in first, middle and last position (shape codes >= 1000 make the harness build them; the spec derives the tag)
ZERO_DOF_MODELS = (13, 16, 30, 31, 32)
ZERO_SHAPES = [1003, 2004, 3002]
# extra shapes in the thorough tier: nested containers get more structural variety (the code's first choice is
# shape mod n, nested choices are hashed from the whole code)
EXTRA_SHAPES = {13: 15, 15: 25, 16: 25, 17: 15, 19: 12, 9: 0, 30: 20, 31: 10, 32: 10}

SPEC_MUTANTS = ["cast_swap", "any_share", "any_share_assign", "sub_skip_last", "vec_cntr", "vec_idx_static", "variant_swap"]
ALL_OPS = ["construct", "copy", "assign", "cast", "rplus", "rminus", "mutate", "dof", "rt1", "rt2", "rt2t", "twin"]

# histories per (model, shape); chunk = trace lines per TLC process (split at history boundaries)
TIERS = {
    "quick": dict(per_shape=3, per_model=36, depth=4, chunk=420, extra=False),
    "thorough": dict(per_shape=100, per_model=1000, depth=6, chunk=3000, extra=True),
}

ASSUME = [
    "leaf oracle: rplus(g,a) = g Exp(a) as a product of the documented group matrix and the matrix exponential of the documented algebra matrix over exact rationals (spec/Groups.tla, RFun.tla; oracle error < 2^-150); rminus is verified relationally (y (+) d = x), SubManifold differences through the recorded full-space witness, itself verified",
    "tolerance 1e-9 (DESIGN.md 5/C07); 1e-7 when a rotation part is within 1e-5 of pi (the schedule of C02, of whose exp/log rplus/rminus are built)",
    "design model: leaf manifold abstracted to the lattice Z^n in a chart; decides adaptor index logic and ownership for all histories up to the depth bound, not leaf numerics",
    "values/tangents are a stratified seeded sample (element strata incl. identity, tiny, half-turn; rotation strata S00..S09 below pi, 'W' tangents beyond); the trace spec re-derives dof, segments, free directions, domain membership and strata from the logged values",
    "double scalar only (AnyManifold is double-only; the property's tolerance is stated for double); SubManifold base manifolds are Lie groups / vectors (as in the property), not containers",
    "TLC, the JVM and the BigRat/RFun Java overrides (differentially tested) are trusted; the harness only records",
]


_LOCK = threading.Lock()
NOTE = ("-noGenerateSpecTE",)
PROCS = min(V.NCPU, int(os.environ.get("VERIF_C07_PROCS", "6")))      # parallel TLC trace processes


def active_models():
    """all models; VERIF_C07_MODELS=1,11,20 restricts a run to some of them (development / self-test on a busy machine:
    the histories, shapes and values of a model do not depend on which other models run)"""
    sel = os.environ.get("VERIF_C07_MODELS")
    return sorted(MODELS) if not sel else sorted(int(x) for x in sel.split(",") if int(x) in MODELS)


def harness_job(m):
    return ("manifold.cpp", [f"VH_MODEL={m}"])


def model_cfg(workdir, bug, depth, emit=False):
    p = os.path.join(workdir, f"Manifold_{bug}_{'gen' if emit else 'chk'}.cfg")
    inv = "EmitInv" if emit else "TypeOk Refine QueryOk AxDof AxZero AxRt1 AxRt2 AxStruct"
    with open(p, "w") as fh:
        fh.write(f'CONSTANTS\n  MaxDepth = {depth}\n  Kinds = {{"L", "V", "W", "S", "A"}}\n  Bug = "{bug}"\n'
                 f'  Emit = {"TRUE" if emit else "FALSE"}\nINIT Init\nNEXT Next\n'
                 + ("" if emit else "VIEW View\n") + f"INVARIANTS {inv}\nCHECK_DEADLOCK FALSE\n")
    return p


def run_design_models(oc, workdir, depth):
    """exhaustive check of the design model + rejection of every seeded spec mutant"""
    info = {}
    with cf.ThreadPoolExecutor(4) as ex:
        # -noGenerateSpecTE: a rejected spec mutant must not leave Manifold_TTrace_* files in spec/
        futs = {ex.submit(V.run_tlc, "Manifold", model_cfg(workdir, "none", depth), workdir, None, 4, 2400, NOTE): "none"}
        for b in SPEC_MUTANTS:
            futs[ex.submit(V.run_tlc, "Manifold", model_cfg(workdir, b, 4), workdir, None, 1, 900, NOTE)] = b
        for f in cf.as_completed(futs):
            b, r = futs[f], f.result()
            with _LOCK:
                oc.states += r["distinct"]
                oc.transitions += r["states"]
            if b == "none":
                if r["rc"] != 0 or "No error has been found" not in r["out"]:
                    m = re.search(r"Invariant (\w+) is violated", r["out"])
                    if m:
                        # the model with the SPECIFIED behaviour of every adaptor violates its own axioms: modelling error
                        raise V.ToolFailure(f"design model Manifold.tla (Bug = none) violates {m.group(1)} - modelling error:\n{r['out'][-2500:]}")
                    raise V.ToolFailure(f"TLC failed on Manifold.tla (rc={r['rc']}):\n{r['out'][-2500:]}")
                info["design_model"] = dict(depth=depth, distinct=r["distinct"], generated=r["states"], result="all invariants hold")
            else:
                m = re.search(r"Invariant (\w+) is violated", r["out"])
                if r["rc"] != 12 or not m:
                    raise V.ToolFailure(f"seeded spec mutant Bug={b} was NOT rejected by TLC (rc={r['rc']}) - vacuous model:\n{r['out'][-1500:]}")
                info.setdefault("spec_mutants_rejected", {})[b] = m.group(1)
    return info


def generate_histories(oc, workdir):
    r = V.run_tlc("Manifold", model_cfg(workdir, "none", 4, emit=True), workdir, workers=1, timeout=900, extra=NOTE)
    if r["rc"] != 0:
        raise V.ToolFailure(f"TLC generator failed (rc={r['rc']}):\n{r['out'][-2000:]}")
    with _LOCK:
        oc.states += r["distinct"]
        oc.transitions += r["states"]
    by_kind = {}
    for ln in r["out"].splitlines():
        if ln.startswith('"H|'):
            _, kind, steps = ln.strip('"').split("|")
            prog = []
            for st in steps.split(";"):
                if not st:
                    continue
                w = st.split(" ")
                op, i, j, sym = w[0], w[1], w[2], (w[3] if len(w) > 3 else "")
                if op in ("construct", "mutate"):
                    prog.append(f"{op} {i} {sym}")
                elif op in ("copy", "assign", "cast"):
                    prog.append(f"{op} {i} {j}")
                elif op == "rplus":
                    prog.append(f"rplus {i} {j} {sym}")
                elif op in ("rminus", "rt2"):
                    prog.append(f"{op} {i} {j}")
                elif op == "dof":
                    prog.append(f"dof {i}")
                elif op in ("rt1", "rt2t"):
                    prog.append(f"{op} {i} {sym}")
                elif op == "twin":
                    prog.append(f"twin {i} {j} {sym}")
                else:
                    raise V.ToolFailure(f"generator printed an unknown step {st!r}")
            by_kind.setdefault(kind, []).append(prog)
    if sorted(by_kind) != ["A", "L", "S", "V", "W"] or min(len(v) for v in by_kind.values()) < 1000:
        raise V.ToolFailure(f"generator produced too few histories: { {k: len(v) for k, v in by_kind.items()} }")
    return by_kind, dict(generated=r["states"], distinct=r["distinct"], histories={k: len(v) for k, v in by_kind.items()})


def ops_of(h):
    return {ln.split()[0] for ln in h}


def select(hists, n, rng, must_ops):
    """n histories sampled with rng, the first ones chosen greedily (among 300 random candidates each) so that
    every op in must_ops occurs; more are added if n did not suffice"""
    pick, have = [], set()
    while len(pick) < n or not set(must_ops) <= have:
        need = set(must_ops) - have
        if need:
            cands = [hists[i] for i in rng.sample(range(len(hists)), min(300, len(hists)))]
            h = max(cands, key=lambda c: len(ops_of(c) & need))
            if not ops_of(h) & need:
                h = next(c for c in hists if ops_of(c) & need)
        else:
            h = hists[rng.randrange(len(hists))]
        pick.append(h)
        have |= ops_of(h)
    return pick


SWEEP_OPS = ["rplus", "rt1", "rminus", "cast", "copy", "dof", "rt2t"]   # reached for EVERY shape of a SubManifold model


def plan_programs(by_kind, tier, seed):
    """-> {model: [(hid, shape, [lines])]}"""
    cfg = TIERS[tier]
    out = {}
    for m in active_models():
        name, kind, shapes = MODELS[m]
        rng = random.Random(seed * 7919 + 17 + 1000003 * m)      # per model: independent of the other models
        shapes = list(shapes)
        if m in ZERO_DOF_MODELS:
            shapes += ZERO_SHAPES if m != 32 else [1000, 2000, 3000]      # model 32: shape % 2 = 0 selects the vector alternative
        if cfg["extra"] and EXTRA_SHAPES.get(m):
            shapes += [len(shapes) + 5 * k + (k % 5) for k in range(1, EXTRA_SHAPES[m] + 1)]
        per = max(cfg["per_shape"], -(-cfg["per_model"] // len(shapes)))
        ops = [o for o in ALL_OPS if not (kind == "A" and o == "cast")]
        sweep = [o for o in (SWEEP_OPS if kind in ("S",) else ["rplus", "rt1", "rminus", "dof", "rt2t"]) if o in ops]
        progs, hid = [], 0
        for k, sh in enumerate(shapes):
            # every shape gets the sweep operations; the first shape of a model gets every operation
            for h in select(by_kind[kind], per, rng, ops if k == 0 else sweep):
                hid += 1
                progs.append((hid, sh, h))
        if kind in ("A", "S") and len(MODELS[m][2]) > 1:
            # cross-shape histories (hand-written, not from Manifold.tla whose histories keep one shape): a type-erased
            # object is copy-assigned from one of ANOTHER run-time dof and must then report / use the new dof
            base = list(MODELS[m][2])
            for k in range(len(base)):
                s1, s2 = base[k], base[(k + 1 + rng.randrange(len(base) - 1)) % len(base)]
                hid += 1
                progs.append((hid, s1, XSHAPE_HISTORY(s1, s2)))
        out[m] = progs
    return out


def XSHAPE_HISTORY(s1, s2):
    return ["construct 1 a", "dof 1", f"reshape {s2}", "construct 2 xb", "dof 2", "assign 1 2", "dof 1", "rt1 1 T",
            "rplus 3 1 U", "dof 3", "copy 4 1", "dof 4", f"reshape {s1}", "construct 5 xc", "assign 4 5", "dof 4", "rt1 4 U",
            "assign 2 4", "dof 2", "rminus 2 4"]


def write_prog(path, progs):
    with open(path, "w") as fh:
        for hid, sh, lines in progs:
            fh.write(f"begin {hid} {sh}\n" + "\n".join(lines) + "\nend\n")


def run_harness(exe, progs, prog_path, out, seed):
    """run the programs; a signal inside a step is recorded by the harness as a final {"op":"crash"} event (exit
    code 4): the run is resumed behind the crashed history (at most 40 times), the trace parts are concatenated"""
    todo, parts = list(progs), []
    for attempt in range(41):
        write_prog(prog_path, todo)
        part = f"{out}.part{attempt}"
        r = subprocess.run([exe, "--prog", prog_path, "--out", part, "--seed", str(seed)], capture_output=True, text=True, timeout=900)
        parts.append(part)
        if r.returncode == 0:
            break
        last = open(part).read().splitlines()[-1:] if os.path.exists(part) else []
        if r.returncode != 4 or not last or '"op":"crash"' not in last[0]:
            raise V.ToolFailure(f"harness {exe} failed rc={r.returncode}: {r.stderr[-1000:]}")
        crashed = int(json.loads(last[0])["step"].split()[0])
        idx = [i for i, (hid, _, _) in enumerate(todo) if hid == crashed]
        if not idx:
            raise V.ToolFailure(f"harness crash record names an unknown history: {last[0]}")
        todo = todo[idx[0] + 1:]
        if not todo:
            break
    with open(out, "w") as fh:
        for part in parts:
            fh.write(open(part).read())
            os.remove(part)
    write_prog(prog_path, progs)


def split_at_histories(path, chunk):
    lines = open(path).read().splitlines()
    if lines and '"op":"TRUNCATED"' in lines[-1]:
        raise V.ToolFailure(f"trace {path} truncated (harness terminated abnormally)")
    outs, start, k = [], 0, 0
    begins = [i for i, ln in enumerate(lines) if ln.startswith('{"op":"begin"')] + [len(lines)]
    cur = 0
    for b in begins[1:]:
        if b - cur >= chunk or b == len(lines):
            if b > cur:
                p = f"{path}.{k:04d}"
                with open(p, "w") as fh:
                    fh.write("\n".join(lines[cur:b]) + "\n")
                outs.append((p, cur))
                k += 1
                cur = b
    return outs, lines


def validate(oc, traces, chunk, workdir, timeout=3000):
    """traces: [(path, meta)] where meta has model, seed and 'progs' {hid: (shape, lines)}"""
    work = []
    for path, meta in traces:
        chunks, lines = split_at_histories(path, chunk)
        for cp, first in chunks:
            work.append((cp, first, meta, lines))
    work.sort(key=lambda w: -os.path.getsize(w[0]))
    with cf.ThreadPoolExecutor(PROCS) as ex:
        futs = {ex.submit(V.validate_chunk, "TraceManifold", "TraceManifold.cfg", cp, workdir, timeout): (cp, first, meta, lines)
                for cp, first, meta, lines in work}
        for f in cf.as_completed(futs):
            cp, first, meta, lines = futs[f]
            v, r = f.result()
            oc.states += r["distinct"]
            oc.transitions += max(r["states"] - 1, 0)
            oc.traces += 1
            oc.events += v["lines"]
            name = MODELS[meta["model"]][0]
            for k, n in (v.get("cov") or {}).items():
                oc.cov[f"{name}|{k}"] = oc.cov.get(f"{name}|{k}", 0) + n
            for b in v["bad"]:
                ev = json.loads(lines[first + b["line"] - 1])
                b2 = dict(b)
                b2["line"] = first + b["line"]
                b2["g"] = name
                b2["model"] = meta["model"]
                b2["kind"] = MODELS[meta["model"]][1]
                b2["sc"] = "d"
                b2["shape"] = b.get("stratum")          # model-specific shape | stratum as derived by the spec
                b2["stratum"] = b["clause"]             # one signature per (clause, op, model) in the report
                if b["clause"].startswith("TOOL."):
                    raise V.ToolFailure(f"harness / program error {b2} in {cp}")
                hid = ev["h"] if "h" in ev else int(ev["step"].split()[0])
                shape, prog = meta["progs"][hid]
                payload = {"family": "manifold", "model": meta["model"], "model_name": name, "seed": meta["seed"],
                           "hid": hid, "shape": shape, "prog": prog, "failing_op": ev["op"],
                           "event": {k: V.dequad(x) for k, x in ev.items() if k != "obs"}}
                oc.bad_step(b2, payload)
                key = f"{b['clause']}|{name}"
                oc.extra.setdefault("bad_steps_by_clause_and_model", {})
                oc.extra["bad_steps_by_clause_and_model"][key] = oc.extra["bad_steps_by_clause_and_model"].get(key, 0) + 1
            os.remove(cp)
            vp = cp + ".verdict.json"
            if os.path.exists(vp):
                os.remove(vp)
    for path, meta in traces[:40:13]:
        with open(path) as fh:
            for i, ln in enumerate(fh):
                if i in (4,) and '"h":' in ln:
                    ev = json.loads(ln)
                    oc.samples.append({"model": MODELS[meta["model"]][0], "history": meta["progs"][ev["h"]][1],
                                       "event": {k: V.dequad(x) for k, x in ev.items() if k != "obs"}})


def required_cells(oc, plan):
    """no vacuity: every op on every model; every shape of every model reached by rplus, rt1, rminus and a copy"""
    missing = []
    keys = list(oc.cov)
    for m, progs in plan.items():
        name, kind, _ = MODELS[m]
        for op in ALL_OPS:
            if kind == "A" and op == "cast":
                continue
            if not any(k.startswith(f"{name}|{op}|") for k in keys):
                missing.append(f"{name}|{op}")
        if kind in ("A", "S") and len(MODELS[m][2]) > 1 and not any(k.startswith(f"{name}|assign|") and "~xdof" in k for k in keys):
            missing.append(f"{name}|assign: no copy assignment over an object of another dof")
    # exhaustive sweeps, from the shapes the SPEC derived out of the recorded values
    def shapes_seen(name, op):
        return {k.split("|")[2].split("~")[0] for k in keys if k.startswith(f"{name}|{op}|")}
    for m in ZERO_DOF_MODELS:
        if m not in plan:
            continue
        for op in ("dof", "rplus", "rt1", "rminus", "rt2t"):
            for pos in "FML":
                if not any(k.startswith(f"{MODELS[m][0]}|{op}|") and "~z" in k and pos in k.split("|")[2].split("~z")[-1] for k in keys):
                    missing.append(f"{MODELS[m][0]}|{op}: no zero-dof element in position {pos}")
    for m in RAGGED_MODELS:
        if m not in plan:
            continue
        for op in ("dof", "rplus", "rt1", "rminus"):
            if not any(k.startswith(f"{MODELS[m][0]}|{op}|") and "~ragged" in k for k in keys):
                missing.append(f"{MODELS[m][0]}|{op}: no ragged container")
    for m, n in ((20, 8), (21, 8), (22, 64), (23, 16), (24, 8)):
        if m not in plan:
            continue
        for op in ("rplus", "rt1", "rminus", "cast", "copy", "dof", "rt2t"):
            if len(shapes_seen(MODELS[m][0], op)) != n:
                missing.append(f"{MODELS[m][0]}|{op}: {len(shapes_seen(MODELS[m][0], op))}/{n} subsets")
        if not any(k.startswith(f"{MODELS[m][0]}|rt2t|") and k.endswith("|applies") for k in keys):
            missing.append(f"{MODELS[m][0]}|rt2 applies")
    for m in (11, 12, 13, 14, 15, 16, 17):
        if m not in plan:
            continue
        for op in ("rplus", "rt1", "rminus"):
            got = {s for s in shapes_seen(MODELS[m][0], op)}
            if not {"V0", "V1", "V2", "V3", "V4"} <= got:
                missing.append(f"{MODELS[m][0]}|{op}: sizes {sorted(got)}")
    for m, n in ((18, 3), (19, 4)):
        if m not in plan:
            continue
        for op in ("rplus", "rt1", "rminus"):
            alts = {s.split(".")[0] for s in shapes_seen(MODELS[m][0], op)}
            if len(alts) != n:
                missing.append(f"{MODELS[m][0]}|{op}: alternatives {sorted(alts)}")
    return missing


def witnesses(oc, prop, workdir):
    traces = []
    for i, ent in enumerate(oc.known["open"]):
        w = ent.get("witness") or {}
        if ent.get("property") != prop or w.get("family") != "manifold":
            continue
        exe = V.build_one(*harness_job(w["model"]))
        prog = os.path.join(workdir, f"witness_{i}.prog")
        out = os.path.join(workdir, f"witness_{i}.ndjson")
        run_harness(exe, [(w["hid"], w["shape"], w["prog"])], prog, out, w["seed"])
        traces.append((out, {"model": w["model"], "seed": w["seed"], "progs": {w["hid"]: (w["shape"], w["prog"])}, "witness_of": i}))
    return traces


def check(prop, tier, seed, replay=None):
    oc = V.Outcome(prop, tier, seed)
    workdir = os.path.join(V.BUILD, "work", f"{prop}_{os.getpid()}")
    os.makedirs(workdir, exist_ok=True)
    try:
        extra = {}
        if replay:
            rp = json.load(open(replay))
            exe = V.build_one(*harness_job(rp["model"]))
            prog = os.path.join(workdir, "replay.prog")
            out = os.path.join(workdir, "replay.ndjson")
            run_harness(exe, [(rp["hid"], rp["shape"], rp["prog"])], prog, out, rp["seed"])
            traces = [(out, {"model": rp["model"], "seed": rp["seed"], "progs": {rp["hid"]: (rp["shape"], rp["prog"])}, "replay_of": replay})]
            oc.known = {"open": [], "fixed": []}   # a replay reports what it sees
            validate(oc, traces, 100000, workdir)
        else:
            cfg = TIERS[tier]
            with cf.ThreadPoolExecutor(3) as ex:
                fb = ex.submit(V.build_many, [harness_job(m) for m in active_models()])
                fd = ex.submit(run_design_models, oc, workdir, cfg["depth"])
                fg = ex.submit(generate_histories, oc, workdir)
                exes = fb.result()
                extra.update(fd.result())
                by_kind, geninfo = fg.result()
            extra["generator"] = geninfo
            plan = plan_programs(by_kind, tier, seed)
            traces = []

            def run_model(m, exe):
                prog = os.path.join(workdir, f"m{m}.prog")
                out = os.path.join(workdir, f"m{m}.ndjson")
                run_harness(exe, plan[m], prog, out, seed)
                return (out, {"model": m, "seed": seed, "progs": {hid: (sh, lines) for hid, sh, lines in plan[m]}})
            with cf.ThreadPoolExecutor(V.NCPU) as ex:
                traces = list(ex.map(lambda t: run_model(*t), zip(active_models(), exes)))
            traces += witnesses(oc, prop, workdir)
            validate(oc, traces, cfg["chunk"], workdir)
            missing = required_cells(oc, plan)
            if missing and not oc.violations:
                raise V.ToolFailure(f"vacuity guard: required coverage cells are empty: {missing[:12]}")
            if missing:     # steps that crashed / were skipped behind a reported violation leave cells empty
                oc.notes.append(f"coverage cells left empty behind reported violations: {missing[:40]}")
            extra["histories_replayed"] = sum(len(p) for p in plan.values())
            extra["models"] = [MODELS[m][0] for m in active_models()]
            extra["exhaustive_parts"] = ("every subset of fixed dimensions of SubManifold<SO3d> (8), <SE2d> (8), <SE3d> (64), "
                                         "<Vector4d> (16), <Bundle<SO2d,Vector2d>> (8) reached by rplus, rminus, rt1, rt2t, cast, copy, dof; "
                                         "container sizes 0..4 and every variant alternative; design model exhaustive to its depth")
        rule = ("one evaluation = one recorded step of a TLC-generated history replayed on a real Manifold model and validated by TLC "
                "(exact rationals); cells = model | operation | shape re-derived by the spec from the recorded values "
                "(container size, alternative, fixed subset) | rotation stratum or case; distinct_nontrivial = number of non-empty cells; "
                "states/transitions include the design model (exhaustive), its seeded mutants and the history generator")
        extra["checker_cmd"] = "java tlc2.TLC Manifold.tla (design model, mutants, generator) ; java tlc2.TLC -config TraceManifold.cfg TraceManifold.tla per trace chunk"
        return oc.finish("model_checking", rule, ASSUME, extra_cov=extra)
    finally:
        shutil.rmtree(workdir, ignore_errors=True)
