"""C16 - Map<G> / Map<const G> views are interchangeable with values and write only their own memory.

  1. design model spec/MapMem.tla (TLC, exhaustive for small depth): value semantics over the documented layouts vs
     the implementation shape (base pointer + accessor offsets, coefficient copy loops, temporaries); frame
     conditions, const views never write, guards intact, refinement;
  2. the same model GENERATES histories (BFS: every history of the given depth; -simulate: random prefixes, every
     last step), which harness/mapmem.cpp replays on the real library over one shared block of memory;
  3. spec/TraceMap.tla validates every recorded call: frame, verbatim copies, casts, view/value agreement (4 ulp);
  4. thorough: the same programs run under -fsanitize=address,undefined with everything outside the operands of the
     current call poisoned; a sanitizer report is a violation of C16.frame.
"""
import concurrent.futures as cf
import json
import os
import random
import re
import shutil
import subprocess

import verif as V

# harness instantiations: name -> (VH_TYPE, scalar, model type (MM_TYPE), descriptor shown in reports)
TYPES = {
    "SO2d": (0, "double", "SO2"), "SO3d": (1, "double", "SO3"), "SE2d": (2, "double", "SE2"), "SE3d": (3, "double", "SE3"),
    "C1f": (4, "float", "C1"), "Gald": (5, "double", "Gal"), "SEK3_2d": (6, "double", "SEK3_2"),
    "SEK3_3d": (7, "double", "SEK3_3"), "B3d": (8, "double", "B3"), "B5d": (9, "double", "B5"), "BNd": (10, "double", "BN"),
    "SE3f": (3, "float", "SE3"), "Galf": (5, "float", "Gal"), "SE2f": (2, "float", "SE2"),
}
DESCR = {"B3": "Bundle<SE2,R2,SO3>", "B5": "Bundle<SO2,SO3,SE2,R2,SE3>", "BN": "Bundle<Bundle<SO3,R2>,C1,Galilei>",
         "SEK3_2": "SE_K_3<2>", "SEK3_3": "SE_K_3<3>", "Gal": "Galilei"}

PLAN = {
    # model: (depth, alphabet) checked exhaustively per model type; d1: replay every single step; sim: (traces, sample) at depth 3
    "quick": dict(types=["SO3d", "SE2d", "SE3d", "Gald", "SEK3_2d", "B3d", "SE3f", "C1f"],
                  model=[(2, "core")], deep=[], d2cap=120, sim=(12, 120), asan=False, procs=6, chunk=1200),
    "thorough": dict(types=["SO2d", "SO3d", "SE2d", "SE3d", "C1f", "Gald", "SEK3_2d", "SEK3_3d", "B3d", "B5d", "BNd", "SE3f", "Galf", "SE2f"],
                     model=[(2, "full")], deep=[("SO2", 3, "core")],
                     d2cap=3000, sim=(30, 1500), asan=True, procs=6, chunk=2500),
}
FULL_D2 = ("SO2", "SO3", "SE2")      # model types whose full alphabet (431, 520, 873 steps) is explored to depth 2
SPEC_MUTANTS = [("alias", "SE3"), ("notemp", "SE2"), ("ctornorm", "SE3"), ("short", "SE2"), ("galso3", "Gal"), ("dofpsum", "B3")]

ASSUME = [
    "the documented coefficient layouts (header comments 'Memory layout', transcribed in spec/MapLayout.tla) are the reference for every range",
    "a cell 'changes' when its bit pattern differs between the snapshots taken immediately before and after the call (a write of the value already present is not observable; the harness initialises memory so that sources and destinations differ)",
    "within one call operands are identical or disjoint (partial aliasing inside one Eigen assignment is outside the API's contract)",
    "view/value agreement compares the call through the view with the same call on value objects holding the same coefficients, coefficient-wise, 4 ulp of the larger magnitude; NaN results must be NaN on both sides",
    "histories: all of depth <= the stated bound in the design model; replayed on the real code: every single step, a seeded sample of depth-2 and depth-3 histories; finite list of group types / Bundle compositions",
    "TLC, the JVM, the BigRat Java override and the harness's recording code (snapshots, exact number decomposition) are trusted",
]


def jobs_for(names, asan=False):
    out = []
    for n in names:
        t, sc, _ = TYPES[n]
        defs = [f"VH_TYPE={t}", f"VH_SCALAR={sc}"]
        if asan:
            out.append(("mapmem.cpp", defs, ("-O1", "-g", "-fsanitize=address,undefined", "-fno-sanitize-recover=all", "-fno-omit-frame-pointer")))
        else:
            out.append(("mapmem.cpp", defs))
    return out


def mm_env(mtype, depth, alpha, out, bug="none"):
    return {"MM_TYPE": mtype, "MM_DEPTH": str(depth), "MM_OUT": out, "MM_ALPHA": alpha, "MM_BUG": bug}


def run_model(mtype, depth, alpha, out, workdir, simulate=None, seed=1, workers=1, timeout=3000, bug="none"):
    extra = []
    if simulate:
        extra = ["-depth", str(depth + 1), "-seed", str(seed)]
    r = V.run_tlc("MapMem", "MapMem.cfg", workdir, env=mm_env(mtype, depth, alpha, out, bug), workers=workers, timeout=timeout, xmx="1500m",
                  extra=extra, simulate=(f"num={simulate}" if simulate else None))
    return r


def model_ok(r, what, simulate=False):
    if r["rc"] != 0 or "Error:" in r["out"] or ("Model checking completed. No error has been found" not in r["out"] and not simulate):
        if "is violated" in r["out"]:
            return False
        raise V.ToolFailure(f"TLC failed on the design model ({what}), rc={r['rc']}:\n{r['out'][-2500:]}")
    return True


def read_histories(path, cap=None, rng=None):
    """geometry record and histories emitted by the model; with cap: a uniform sample of `cap` lines (reservoir, one pass)"""
    geom, keep, n = None, [], 0
    if not os.path.exists(path):
        return geom, []
    with open(path) as fh:
        for ln in fh:
            if ln.startswith("{"):
                geom = geom or json.loads(ln)
                continue
            if not ln.startswith("[{"):
                continue
            n += 1
            if cap is None or len(keep) < cap:
                keep.append(ln)
            else:
                j = rng.randrange(n)
                if j < cap:
                    keep[j] = ln
    return geom, [json.loads(ln) for ln in keep]


def step_line(s):
    return "S %s %s %s %s %s %s %s %s %s" % (s["op"], s["d"]["k"], s["d"]["v"], s["s"]["k"], s["s"]["v"], s["o"]["k"], s["o"]["v"], s["i"], s["x"])


def parse_step(ln):
    t = ln.split()
    return {"op": t[1], "d": {"k": t[2], "v": t[3]}, "s": {"k": t[4], "v": t[5]}, "o": {"k": t[6], "v": t[7]}, "i": t[8], "x": t[9]}


def steps_of(meta, hid):
    """the steps of history `hid` (kept on disk in the program file, not in memory)"""
    if "hist" in meta:
        return meta["hist"].get(hid)
    out, on = [], False
    with open(meta["prog"]) as fh:
        for ln in fh:
            if ln.startswith("H "):
                if on:
                    break
                on = int(ln.split()[1]) == hid
            elif on and ln.startswith("S "):
                out.append(parse_step(ln))
    return out


def write_program(path, geom, hist_list):
    """hist_list: list of (hid, steps)"""
    with open(path, "w") as fh:
        fh.write("G %d %d %s\n" % (geom["R"], geom["NB"], " ".join(f"{k}={p}" for k, p in sorted(geom["pos"].items()))))
        for hid, steps in hist_list:
            fh.write(f"H {hid}\n")
            for s in steps:
                fh.write(step_line(s) + "\n")


def run_harness(exe, prog, out, seed, env=None, timeout=1800):
    e = dict(os.environ)
    if env:
        e.update(env)
    r = subprocess.run([exe, "--prog", prog, "--out", out, "--seed", str(seed)], capture_output=True, text=True, timeout=timeout, env=e)
    return r


def harvest_crash(oc, out, meta):
    """a final CRASH event (signal during a call through a view) is a violation; the rest of the trace is still validated"""
    lines = open(out).read().splitlines()
    if not lines or '"op":"CRASH"' not in lines[-1]:
        return False
    cr = json.loads(lines[-1])
    with open(out, "w") as fh:
        fh.write("\n".join(lines[:-1]) + ("\n" if len(lines) > 1 else ""))
    steps = steps_of(meta, cr["h"]) or []
    st = steps[cr["k"] - 1] if 0 < cr["k"] <= len(steps) else None
    b = {"clause": "C16.same.crash", "op": st["op"] if st else "?", "stratum": (st or {}).get("i", "-"), "g": meta["type"],
         "sc": TYPES[meta["type"]][1][0], "type": meta["type"], "err": f"signal {cr['sig']} in step {cr['k']} of history {cr['h']}",
         "tol": "the same call on value objects returned"}
    oc.bad_step(b, {"family": "mapmem", "type": meta["type"], "seed": meta["seed"], "hid": cr["h"], "geom": meta["geom"], "steps": steps,
                    "crash": True})
    return True


def split_by_history(path, chunk):
    """split the trace at 'init' events into files of about `chunk` lines (streaming); -> [(file, first_line_index)]"""
    files, cur, n, start, idx, last = [], None, 0, 0, 0, ""

    def close():
        if cur:
            cur.close()

    with open(path) as fh:
        for i, ln in enumerate(fh):
            if cur is None or (n >= chunk and ln.startswith('{"op":"init"')):
                close()
                p = f"{path}.{idx:04d}"
                idx += 1
                cur = open(p, "w")
                files.append((p, i))
                n = 0
            cur.write(ln)
            n += 1
            last = ln
    close()
    if '"op":"TRUNCATED"' in last:
        raise V.ToolFailure(f"trace {path} truncated (harness terminated abnormally)")
    return files


def validate(oc, traces, chunk, workdir, procs):
    """traces: list of (ndjson path, meta) where meta has type name, histories {hid: steps}, geom, seed"""
    work = []
    for path, meta in traces:
        for cp, first in split_by_history(path, chunk):
            work.append((cp, first, meta))
    work.sort(key=lambda w: -os.path.getsize(w[0]))
    with cf.ThreadPoolExecutor(procs) as ex:
        futs = {ex.submit(V.validate_chunk, "TraceMap", "TraceMap.cfg", cp, workdir, 1500): (cp, first, meta)
                for cp, first, meta in work}
        for f in cf.as_completed(futs):
            cp, first, meta = futs[f]
            v, r = f.result()
            oc.states += r["distinct"]
            oc.transitions += max(r["states"] - 1, 0)
            oc.traces += 1
            oc.events += v["lines"]
            oc.add_cov(v.get("cov") or {})
            lines = open(cp).read().splitlines() if v["bad"] else []
            for b in v["bad"]:
                ev = json.loads(lines[b["line"] - 1])
                b2 = dict(b)
                b2["line"] = first + b["line"]
                b2["g"] = ev.get("g")
                b2["sc"] = ev.get("sc")
                b2["type"] = meta["type"]
                if b["clause"].startswith("TOOL."):
                    raise V.ToolFailure(f"harness/trace problem: {b2} in {cp}")
                hid = ev.get("h")
                payload = {"family": "mapmem", "type": meta["type"], "seed": meta["seed"], "hid": hid, "geom": meta["geom"],
                           "steps": steps_of(meta, hid), "line": first + b["line"],
                           "event": {k: V.dequad(x) for k, x in ev.items()}}
                oc.bad_step(b2, payload)
            os.remove(cp)
            vp = cp + ".verdict.json"
            if os.path.exists(vp):
                os.remove(vp)


def sanitizer_pass(oc, names, progs, workdir, seed):
    """run the ASan+UBSan build on the same programs; a report is a violation of C16.frame"""
    exes = V.build_many(jobs_for(names, asan=True))
    n_ok = 0

    def one(name, exe):
        prog, meta = progs[name]
        out = os.path.join(workdir, f"{name}.asan.ndjson")
        r = run_harness(exe, prog, out, seed, env={"ASAN_OPTIONS": "detect_leaks=0:abort_on_error=0:exitcode=66:allocator_may_return_null=1",
                                                   "UBSAN_OPTIONS": "print_stacktrace=1:halt_on_error=1"})
        return name, r, out, meta

    with cf.ThreadPoolExecutor(8) as ex:
        for name, r, out, meta in ex.map(lambda p: one(*p), zip(names, exes)):
            report = r.stderr or ""
            san = ("ERROR: AddressSanitizer" in report) or ("runtime error:" in report)
            if r.returncode == 0 and not san:
                n_ok += 1
                if os.path.exists(out):
                    os.remove(out)
                continue
            if not san:
                raise V.ToolFailure(f"sanitizer build of the harness failed for {name} rc={r.returncode}: {report[-1500:]}")
            # the harness names every step on stderr before executing it
            marks = re.findall(r"^@ (\d+) (\d+)$", report, flags=re.M)
            hid, k = (int(marks[-1][0]), int(marks[-1][1])) if marks else (0, 1)
            steps = steps_of(meta, hid) or []
            st = steps[k - 1] if 0 < k <= len(steps) else None
            report = "\n".join(ln for ln in report.splitlines() if not re.match(r"^@ \d+ \d+$", ln))
            first = next((ln for ln in report.splitlines() if "ERROR: AddressSanitizer" in ln or "runtime error:" in ln), "sanitizer report")
            b = {"clause": "C16.frame.sanitizer", "op": st["op"] if st else "?", "stratum": (st or {}).get("i", "-"),
                 "g": meta["type"], "sc": TYPES[name][1][0], "type": name,
                 "err": first.strip()[:300], "tol": "no report"}
            oc.bad_step(b, {"family": "mapmem", "type": name, "seed": seed, "hid": hid, "geom": meta["geom"], "steps": steps,
                            "sanitizer": True, "report": report[-3000:]})
    return n_ok


def check(prop, tier, seed, replay=None):
    oc = V.Outcome(prop, tier, seed)
    workdir = os.path.join(V.BUILD, "work", f"{prop}_{os.getpid()}")
    os.makedirs(workdir, exist_ok=True)
    try:
        return _check(oc, prop, tier, seed, replay, workdir)
    finally:
        shutil.rmtree(workdir, ignore_errors=True)


def _check(oc, prop, tier, seed, replay, workdir):
    plan = PLAN[tier]
    extra = {"design_model": [], "histories_replayed": {}, "checker_cmd": "java tlc2.TLC -config MapMem.cfg MapMem.tla (design model, generator); "
             "java tlc2.TLC -config TraceMap.cfg TraceMap.tla (one process per trace chunk)"}
    traces = []

    if replay:
        rp = json.load(open(replay))
        name = rp["type"]
        oc.known = {"open": [], "fixed": []}
        hist = {rp["hid"]: rp["steps"]}
        prog = os.path.join(workdir, "replay.prog")
        write_program(prog, rp["geom"], [(rp["hid"], rp["steps"])])
        meta = {"type": name, "hist": hist, "geom": rp["geom"], "seed": rp.get("seed", seed)}
        if rp.get("sanitizer"):
            sanitizer_pass(oc, [name], {name: (prog, meta)}, workdir, meta["seed"])
        else:
            exe = V.build_one(*jobs_for([name])[0])
            out = os.path.join(workdir, "replay.ndjson")
            r = run_harness(exe, prog, out, meta["seed"])
            if r.returncode != 0 and not (r.returncode == 4 and harvest_crash(oc, out, meta)):
                raise V.ToolFailure(f"harness failed rc={r.returncode}: {r.stderr[-1000:]}")
            validate(oc, [(out, meta)], 100000, workdir, 1)
        return oc.finish("model_checking", "replay of one recorded history", ASSUME, extra_cov=extra)

    names = plan["types"]
    if os.environ.get("VERIF_C16_TYPES"):          # development aid: restrict the instantiations
        names = [n for n in os.environ["VERIF_C16_TYPES"].split(",") if n in TYPES]
    exes = V.build_many(jobs_for(names))
    mtypes = sorted({TYPES[n][2] for n in names})
    rng = random.Random(seed)

    # ---- 1+2: design model (exhaustive) and generation of histories, one TLC process per model type and task
    tasks = []
    for mt in mtypes:
        for depth, alpha in plan["model"]:
            if alpha == "full" and mt not in FULL_D2:
                continue        # > 10^6 histories: the core alphabet run ("d2" below) is the exhaustive depth-2 check for these
            tasks.append(("check", mt, depth, alpha, "-", None))
        tasks.append(("d1", mt, 1, "full", os.path.join(workdir, f"{mt}.d1.json"), None))
        tasks.append(("d2", mt, 2, "core", os.path.join(workdir, f"{mt}.d2.json"), None))
        tasks.append(("sim", mt, 3, "full", os.path.join(workdir, f"{mt}.sim.json"), plan["sim"][0]))
    for mt, depth, alpha in plan["deep"]:
        if mt in mtypes:
            tasks.append(("check", mt, depth, alpha, "-", None))
    if tier == "quick":
        # in the quick tier the depth-2 generation run doubles as the exhaustive check (same alphabet)
        tasks = [t for t in tasks if not (t[0] == "check" and (t[2], t[3]) == (2, "core"))]

    def do_task(t):
        kind, mt, depth, alpha, out, sim = t
        r = run_model(mt, depth, alpha, out, workdir, simulate=sim, seed=seed, workers=1, timeout=3400)
        return t, r

    results = {}
    # longest first
    tasks.sort(key=lambda t: -(10 ** t[2]) * (3 if t[3] == "full" else 1))
    with cf.ThreadPoolExecutor(plan["procs"]) as ex:
        for t, r in ex.map(do_task, tasks):
            kind, mt, depth, alpha, out, sim = t
            if not model_ok(r, f"{mt} depth {depth} {alpha}", simulate=bool(sim)):
                # an invariant violation of the design model on the unseeded shape is a modelling defect, not a verdict on the code
                raise V.ToolFailure(f"design model MapMem violates its invariants for {mt} depth {depth}:\n{r['out'][-2000:]}")
            if sim:
                m = re.search(r"number of states generated: (\d+)", r["out"])
                r["states"] = r["distinct"] = int(m.group(1)) if m else 0
            oc.states += r["distinct"]
            oc.transitions += max(r["states"] - 1, 0)
            extra["design_model"].append({"type": mt, "depth": depth, "alphabet": alpha, "mode": "simulate" if sim else "exhaustive",
                                          "states": r["states"], "distinct": r["distinct"]})
            results[(kind, mt)] = out

    # ---- seeded variants of the model must be rejected (non-vacuity of the invariants)
    if tier == "thorough":
        rejected = []
        for bug, mt in SPEC_MUTANTS:
            r = run_model(mt, 1, "full", "-", workdir, bug=bug, timeout=600)
            if model_ok(r, f"seeded variant {bug}"):
                raise V.ToolFailure(f"seeded variant '{bug}' of the design model was NOT rejected by TLC")
            rejected.append(bug)
        extra["seeded_model_variants_rejected"] = rejected

    # ---- 3: programs per harness instantiation
    progs = {}
    for name, exe in zip(names, exes):
        mt = TYPES[name][2]
        r2 = random.Random(seed * 1000003 + TYPES[name][0] * 31 + (7 if TYPES[name][1] == "float" else 0))
        geom, h1 = read_histories(results[("d1", mt)])
        _, h2 = read_histories(results[("d2", mt)], plan["d2cap"], r2)
        _, h3 = read_histories(results[("sim", mt)], plan["sim"][1], r2)
        if geom is None or not h1:
            raise V.ToolFailure(f"generator produced no histories for {mt}")
        prog = os.path.join(workdir, f"{name}.prog")
        write_program(prog, geom, list(enumerate(h1 + h2 + h3)))
        out = os.path.join(workdir, f"{name}.ndjson")
        meta = {"type": name, "prog": prog, "geom": geom, "seed": seed}
        progs[name] = (prog, meta)
        nh = (len(h1), len(h2), len(h3))
        del h1, h2, h3
        r = run_harness(exe, prog, out, seed)
        if r.returncode != 0 and not (r.returncode == 4 and harvest_crash(oc, out, meta)):
            raise V.ToolFailure(f"harness {name} failed rc={r.returncode}: {r.stderr[-1000:]}")
        traces.append((out, meta))
        extra["histories_replayed"][name] = {"depth1": nh[0], "depth2": nh[1], "depth3": nh[2]}

    # ---- 4: trace validation
    validate(oc, traces, plan["chunk"], workdir, plan["procs"])
    for path, meta in traces[:2]:
        with open(path) as fh:
            for i, ln in enumerate(fh):
                if i in (1, 7):
                    ev = json.loads(ln)
                    oc.samples.append({k: V.dequad(x) for k, x in ev.items()})

    # ---- 5: sanitizers
    if plan["asan"] or os.environ.get("VERIF_C16_ASAN"):   # (the variable is a development aid)
        extra["sanitizer_clean_programs"] = sanitizer_pass(oc, names, progs, workdir, seed)

    # ---- vacuity: every operation of the model must have been observed for every instantiation
    need = ["assign", "massign", "mul", "amul", "bmul", "copyctor", "plus", "setid", "cast", "const", "const2"]
    missing = []
    seen_ops = {}
    for k in oc.cov:
        parts = k.split("|")
        if len(parts) >= 2:
            seen_ops.setdefault(parts[1], set()).add(parts[0])
    for tn, ops in seen_ops.items():
        for o in need + (["partsctor", "subsetid", "submul", "subconst"] if "subassign" in ops else []):
            if o not in ops:
                missing.append(f"{o}|{tn}")
    if missing and not any(b.get("clause") == "C16.same.crash" for b, _ in oc.violations):
        raise V.ToolFailure(f"vacuous run: operations never observed: {missing[:10]}")

    rule = ("states/transitions: TLC counts of the design model runs (exhaustive per type, depth and alphabet listed under design_model) plus the "
            "trace-validation runs; one evaluation = one recorded library call (or memory snapshot) judged by TLC; cells = operation | type/scalar | "
            "destination<source storage kinds | operand relation | sub-part")
    extra["types"] = [f"{n}: {DESCR.get(TYPES[n][2], TYPES[n][2])}<{TYPES[n][1]}>" for n in names]
    return oc.finish("model_checking", rule, ASSUME, extra_cov=extra)
