"""C09: smooth::minimize never makes things worse, terminates, and finds the minimiser.

(A) design model spec/Minimize.tla (+ MinimizeOps.tla): the solver loop and the two trust-region strategies as
    coded, explored exhaustively by TLC (max_iter <= 4, both strategies, every abstract environment outcome, fresh
    and shared strategy objects); seeded model mutants and dropped environment assumptions must be rejected.
(B) binding: harness/optim.cpp runs the real solver (hook events of optim.hpp + callback observations) on
    generated problems; spec/TraceOptim.tla re-executes the model's decisions on the logged fields of every
    iteration, checks monotone callbacks, bounds, status contract, strategy persistence, final arguments and -
    where the minimiser is known by construction - the distance of a converged result to it (exact rationals).
"""
import concurrent.futures as cf
import json
import os
import re
import shutil
import subprocess

import verif as V

JOBS = int(os.environ.get("VERIF_JOBS", V.NCPU))
PARTS = (0, 1, 2, 3)
PART_FAMS = {
    0: ["lin_static", "lin_dynamic", "lin_sparse", "lin_multi", "lin_static_small", "lin_degenerate"],
    1: ["align_so3", "align_se2", "align_rt_multi", "align_bundle"],
    2: ["align_se3_dyn", "pose_se3", "chain_so3_sparse"],
    3: ["rosenbrock", "poly_misc", "misra1a", "scale", "zero_jacobian", "offset_rosenbrock"],
}

TIERS = {
    # groups: groups of three runs per harness part (4 parts); per_chunk: groups per TLC process
    # (part 0, the linear families, gets 24 groups in the quick tier: half of its runs are zero-coordinate starts)
    "quick": dict(groups=16, groups_part={0: 24}, per_chunk=4, timeout=600),
    "thorough": dict(groups=450, per_chunk=30, timeout=2400),
}

ASSUME = [
    "design model: max_iter <= 4 (one run) / <= 2 (quick) or 3 (thorough) for two consecutive runs on a fresh or re-used strategy "
    "object that may arrive with a collapsed or grown radius; cost abstracted to 3 levels, rho to 12 representatives (arbitrary, not "
    "tied to actu_red/pred_red); the strategy state is explored in integer exponents and the abstraction is checked against the "
    "rational operators used on the traces (ASSUME StepCommutes)",
    "Monotone is a theorem of the model under the environment assumptions A2 (the sign of actu_red is the sign of the cost "
    "comparison) and A3 (r_n = 0 => dx = 0) only; both are validated on every recorded iteration (A2: actu_red against the "
    "callback's cost; A3 counted in cells A3|*); on the real code monotonicity is decided directly on the callback costs",
    "termination rests on the loop bound max_iter alone (a rejected iteration may grow the radius: no other variant exists)",
    "rounding allowance of C09.monotone: 64 ulp of max(previous cost, fscale), fscale = magnitude of the terms of one residual "
    "evaluation declared by the problem generator",
    "minimiser clause: linear least squares (exact rational normal equations) and noise-free / 1e-7-perturbed alignment "
    "(generating element; distance in matrix space, slack 1e-9 / 1e-5 for the perturbation); polynomial / curve-fitting "
    "families have no minimiser clause",
    "residual functions are a generated sample (families in harness/optim.cpp), not all functions; functions returning NaN are not sampled",
    "TLC, the JVM, the BigRat Java override, the SMOOTH_VERIF hook in optim.hpp and the recording code are trusted",
]

MODEL_MUTANTS = [
    # (name, substitutions in Minimize.cfg, property that must be violated)
    ("accept_always", {'Variant = "coded"': 'Variant = "accept_always"'}, "Monotone"),
    ("accept_pred_red_only (the rule before f247895)", {'Variant = "coded"': 'Variant = "accept_pred_red_only"'}, "Monotone"),
    ("accept_pred_red_only, rho tied to actu_red/pred_red", {'Variant = "coded"': 'Variant = "accept_pred_red_only"', "TieRho = FALSE": "TieRho = TRUE"}, "Monotone"),
    ("no_reset (reset call of 17b931c missing)", {'Variant = "coded"': 'Variant = "no_reset"'}, "FreshAtStart"),
    ("assign_before_test", {'Variant = "coded"': 'Variant = "assign_before_test"'}, "Callbacks"),
    ("loop_le", {'Variant = "coded"': 'Variant = "loop_le"'}, "Bound"),
    ("status_default_ptol", {'Variant = "coded"': 'Variant = "status_default_ptol"'}, "StatusContract"),
    ("reduce_not_reset", {'Variant = "coded"': 'Variant = "reduce_not_reset"'}, "ReduceRestart"),
    ("drop_A2", {"AssumeA2 = TRUE": "AssumeA2 = FALSE"}, "Monotone"),
    ("drop_A3", {"AssumeA3 = TRUE": "AssumeA3 = FALSE"}, "Monotone"),
]
# reachability witnesses: "invariants" / action properties that TLC must violate (non-vacuity of the model's properties)
REACH = ["NeverFtol", "NeverPtol", "NeverMaxIters", "NeverRejected", "NeverAcceptedAtZeroResidual", "NeverDirtyArrival"]
REACH_ACTION = ["NeverRejectedWhileRadiusGrows"]   # checked with rho tied to actu_red/pred_red


def required_cells(tier):
    req = ["cb|initial", "cb|step", "A3|holds", "run|no-iterations", "run|with-rejections", "ptol|1.000000e-03", "iter|disney|rejected:actu_red<0",
           "rho|nan", "rho|<=0", "rho|>1e-3", "pred_red|>0", "pred_red|=0",
           "end|status|0", "end|status|1", "end|status|2", "exit|2|at-max_iter", "exit|1|before", "exit|0|before"]
    for k in ("ceres", "disney"):
        req += [f"strategy|{k}|fresh", f"strategy|{k}|shared", f"iter|{k}|accepted:take_step", f"iter|{k}|rejected:strategy",
                f"iter|{k}|accepted:r_n=0", f"reset|arrived-dirty|{k}"]
    req += ["mode|num", "mode|ana", "mode|def", "shape|static", "shape|dynamic", "shape|multi", "shape|sparse"]
    req += [f"max_iter|{m}" for m in (0, 1, 2, 5, 1000)]
    req += [f"ftol|1.000000e-{k}" for k in ("03", "06", "12")]
    req += [f"fam|{f}" for p in PARTS for f in PART_FAMS[p]]
    for shape in ("static", "dynamic", "multi", "sparse"):
        req.append(f"minimiser|lin|{shape}|ana")
    for mode in ("num", "ana", "def"):
        req += [f"minimiser|lin|static|{mode}", f"minimiser|grp|static|{mode}", f"minimiser|grp|dynamic|{mode}",
                f"minimiser|grp|multi|{mode}"]
    req += ["minimiser|grp|sparse|ana", "minimiser|grp|sparse|def", "minimiser|lin|sparse|def"]
    # residual weights (units of f): every judged weight with a sparse and with a dense Jacobian; the tiny ones at least run
    for ws in ("1.000000e+00", "1.000000e-02", "1.000000e-03", "1.000000e-04"):
        req += [f"minimiser-w|{ws}|sparseJ", f"minimiser-w|{ws}|denseJ"]
    req += ["w|1.000000e-06", "w|1.000000e-08"]
    # starting points of vector arguments: the origin and exactly one zero coordinate, differentiated numerically
    # (explicitly and through Default), for a dense and a sparse problem, and judged by the minimiser clause
    for st in ("origin", "onezero"):
        for mode in ("num", "def"):
            req += [f"start|{st}|{mode}|numdiff=1|dense", f"start|{st}|{mode}|numdiff=1|sparse"]
        req.append(f"minimiser-start|{st}|numdiff=1")
    req += ["start|generic", "start|at-min", "minimiser-start|generic|numdiff=1", "minimiser-start|generic|numdiff=0"]
    if tier == "thorough":
        req += ["iter|ceres|accepted:pred_red<=0", "iter|disney|accepted:pred_red<=0", "iter|ceres|rejected:actu_red<0",
                "iter|disney|rejected:actu_red<0", "exit|0|at-max_iter", "exit|1|at-max_iter", "pred_red|<0"]
    return req


# ----------------------------------------------------------------------------- design model

def tlc_model(cfg_text, name, workdir, workers, timeout, xmx="3g"):
    cfg = os.path.join(workdir, f"Minimize_{name}.cfg")
    with open(cfg, "w") as fh:
        fh.write(cfg_text)
    return V.run_tlc("Minimize", cfg, workdir, workers=workers, timeout=timeout, xmx=xmx, extra=["-noGenerateSpecTE"])


def run_models(oc, tier, workdir):
    base = open(os.path.join(V.SPEC, "Minimize.cfg")).read()
    shared = open(os.path.join(V.SPEC, "Minimize_shared.cfg")).read()
    live = open(os.path.join(V.SPEC, "Minimize_live.cfg")).read()
    jobs = [("max_iter=4, one run", base, 4, 900, None), ("max_iter=2, two runs fresh/shared", shared, 3, 900, None),
            ("Termination (temporal), max_iter=2", live, 1, 900, None)]
    if tier == "thorough":
        jobs.append(("max_iter=3, two runs fresh/shared", shared.replace("MaxIter = 2", "MaxIter = 3"), 4, 2400, None))
    small = base.replace("MaxIter = 4", "MaxIter = 2")
    for name, subs, prop in MODEL_MUTANTS:
        txt = small
        for a, b in subs.items():
            if a not in txt:
                raise V.ToolFailure(f"Minimize.cfg lacks '{a}'")
            txt = txt.replace(a, b)
        jobs.append((f"mutant {name}", txt, 1, 600, prop))
    for inv in REACH:
        txt = shared.replace("INVARIANT TypeOK", f"INVARIANT TypeOK\nINVARIANT {inv}")
        jobs.append((f"reachability {inv}", txt, 1, 600, inv))
    for ap in REACH_ACTION:
        txt = small.replace("PROPERTY Decreases", f"PROPERTY Decreases\nPROPERTY {ap}").replace("TieRho = FALSE", "TieRho = TRUE")
        jobs.append((f"reachability {ap}", txt, 1, 600, ap))
    info = []

    def one(j):
        name, txt, workers, timeout, prop = j
        r = tlc_model(txt, re.sub(r"\W+", "_", name), workdir, workers, timeout, xmx="4g" if workers > 2 else "2g")
        return j, r
    with cf.ThreadPoolExecutor(min(JOBS, 6)) as ex:
        for (name, txt, workers, timeout, prop), r in ex.map(one, jobs):
            out = r["out"]
            ok = "No error has been found" in out
            if prop is None:
                if not ok and "is violated" not in out:
                    raise V.ToolFailure(f"TLC failed on Minimize ({name}): {out[-1500:]}")
                oc.states += r["distinct"]
                oc.transitions += max(r["states"] - 1, 0)
                info.append({"model": "Minimize", "config": name, "distinct_states": r["distinct"], "states_generated": r["states"],
                             "result": "all invariants and properties hold" if ok else "VIOLATED"})
                if not ok:
                    m = re.search(r"(Invariant|property) (\w+) is violated", out)
                    oc.bad_step({"clause": "C09.model", "op": "model", "stratum": name, "err": m.group(0) if m else "violated", "tol": ""},
                                {"family": "optim", "model": "Minimize", "cfg": txt, "tlc_tail": out[-3000:]})
            else:
                hit = re.search(r"(Invariant|property) " + re.escape(prop) + " is violated", out) is not None
                info.append({"model": "Minimize", "config": name, "distinct_states": r["distinct"],
                             "result": (f"witness found by TLC ({prop})" if name.startswith("reachability") else
                                        f"rejected by TLC ({prop} violated) as required") if hit else "NOT rejected"})
                if not hit:
                    raise V.ToolFailure(f"model {name} was not rejected through {prop}: the model property is vacuous\n{out[-1500:]}")
    return info


# ----------------------------------------------------------------------------- harness / traces

def exe_jobs():
    return [("optim.cpp", [f"VH_PART={p}"]) for p in PARTS]


def check_hook():
    hp = os.path.join(V.REPO, "include", "smooth", "detail", "verif_hooks.hpp")
    op = os.path.join(V.REPO, "include", "smooth", "optim.hpp")
    if not os.path.exists(hp) or "optim.iter" not in open(op).read():
        raise V.ToolFailure(f"the SMOOTH_VERIF hook of optim.hpp is not present in {V.REPO} (apply /verif/hooks/optim_hook.patch)")


def run_harness(exe, args, out, timeout=900):
    r = subprocess.run([exe] + args + ["--out", out], capture_output=True, text=True, timeout=timeout)
    if r.returncode != 0:
        raise V.ToolFailure(f"harness {exe} {' '.join(args)} failed rc={r.returncode}: {r.stderr[-1000:]}")


def split_at_groups(path, per_chunk):
    lines = open(path).read().splitlines()
    if not lines:
        raise V.ToolFailure(f"empty trace {path}")
    if '"op":"TRUNCATED"' in lines[-1]:
        raise V.ToolFailure(f"trace {path} truncated (harness terminated abnormally)")
    starts = [i for i, ln in enumerate(lines) if ln.startswith('{"op":"group"')]
    if not starts or starts[0] != 0:
        raise V.ToolFailure(f"trace {path} does not start with a group event")
    chunks = []
    for c in range(0, len(starts), per_chunk):
        a = starts[c]
        b = starts[c + per_chunk] if c + per_chunk < len(starts) else len(lines)
        p = f"{path}.{c:05d}"
        with open(p, "w") as fh:
            fh.write("\n".join(lines[a:b]) + "\n")
        chunks.append((p, a))
    return chunks, lines


def context_of(lines, idx):
    """begin event and group event governing trace line idx (0-based)"""
    begin = group = None
    for i in range(idx, -1, -1):
        ln = lines[i]
        if begin is None and ln.startswith('{"op":"begin"'):
            begin = json.loads(ln)
        if ln.startswith('{"op":"group"'):
            group = json.loads(ln)
            break
    return begin, group


def validate(oc, traces, per_chunk, workdir, timeout):
    work = []
    for path, meta in traces:
        chunks, lines = split_at_groups(path, per_chunk)
        for cp, first in chunks:
            work.append((cp, first, meta, lines))
    work.sort(key=lambda w: -os.path.getsize(w[0]))

    def one(w):
        v, r = V.validate_chunk("TraceOptim", "TraceOptim.cfg", w[0], workdir, timeout)
        return w, v, r
    with cf.ThreadPoolExecutor(JOBS) as ex:
        for (cp, first, meta, lines), v, r in ex.map(one, work):
            oc.states += r["distinct"]
            oc.transitions += max(r["states"] - 1, 0)
            oc.traces += 1
            oc.events += v["lines"]
            oc.add_cov(v.get("cov") or {})
            for b in v["bad"]:
                if b["clause"].startswith("TOOL."):
                    raise V.ToolFailure(f"harness / trace problem (not a verdict): {b} in {cp}")
                idx = first + b["line"] - 1
                begin, group = context_of(lines, idx)
                b2 = dict(b)
                b2["line"] = idx + 1
                if begin:
                    w = V.dequad(begin["w"])
                    ratio = V.dequad(begin["ptol"]) / w
                    b2.update({"fam": begin["fam"], "mode": begin["mode"], "shape": begin["shape"], "strat": begin["strat"],
                               "shared": 0 if begin["fresh"] else 1, "max_iter": begin["max_iter"], "w": w,
                               "start": begin.get("start"), "numdiff": begin.get("numdiff"),
                               "ptol": V.dequad(begin["ptol"]),
                               # the Ptol test is not invariant to the units of f: ptol / w is what it sees
                               "wclass": "ptol/w>=0.1" if ratio >= 0.0999 else "ptol/w<=1e-2"})
                payload = dict(meta)
                payload.update({"family": "optim", "group": group["group"] if group else None, "line": idx + 1,
                                "event": {k: (V.dequad(x) if k != "g" else x) for k, x in json.loads(lines[idx]).items()}})
                if begin:
                    payload["begin"] = {k: (V.dequad(x) if k not in ("g",) else x) for k, x in begin.items() if k not in ("A", "b")}
                oc.bad_step(b2, payload)
            for p in (cp, cp + ".verdict.json"):
                if os.path.exists(p):
                    os.remove(p)


def sample_of(lines):
    out = []
    for ln in lines:
        if ln.startswith('{"op":"iter"'):
            e = json.loads(ln)
            names = ["iter", "r_n", "actu_red", "pred_red", "rho", "Delta", "lambda", "take_step", "accepted", "|D dx|", "n", "status"]
            out.append({"op": "iter", "run": e["run"], **dict(zip(names, V.dequad(e["v"])))})
            if len(out) >= 2:
                break
    return out


def extra_known(oc):
    """development aid (as in fam_fit): VERIF_KNOWN_EXTRA=<json file> adds open known-finding entries for this run only"""
    p = os.environ.get("VERIF_KNOWN_EXTRA")
    if p:
        extra = json.load(open(p))
        oc.known = {"open": list(oc.known.get("open", [])) + list(extra.get("open", [])), "fixed": oc.known.get("fixed", [])}


def check(prop, tier, seed, replay=None):
    if prop != "C09":
        raise V.ToolFailure(f"fam_optim decides C09, not {prop}")
    check_hook()
    cfg = TIERS[tier]
    oc = V.Outcome(prop, tier, seed)
    extra_known(oc)
    workdir = os.path.join(V.BUILD, "work", f"{prop}_{os.getpid()}")
    os.makedirs(workdir, exist_ok=True)
    try:
        exes = V.build_many(exe_jobs())
        traces, model_info, required = [], [], []
        if not replay:
            # replay files of an earlier run of this property are stale now
            rdir = os.path.join(V.VERIF, "replays")
            for f in (os.listdir(rdir) if os.path.isdir(rdir) else []):
                if re.fullmatch(prop + r"-\d+\.json", f):
                    try:
                        os.remove(os.path.join(rdir, f))
                    except OSError:
                        pass
        if replay:
            rp = json.load(open(replay))
            if rp.get("group") is None:
                raise V.ToolFailure("this replay file carries no harness group (model-level finding): see its tlc_tail")
            out = os.path.join(workdir, "replay.ndjson")
            run_harness(exes[rp["part"]], ["--tier", rp.get("tier", tier), "--seed", str(rp["seed"]), "--groups", str(rp["groups"]),
                                           "--group", str(rp["group"])], out)
            traces.append((out, {k: rp[k] for k in ("part", "seed", "groups", "tier") if k in rp}))
            oc.known = {"open": [], "fixed": []}   # a replay reports what it sees
            validate(oc, traces, 1, workdir, cfg["timeout"])
        else:
            with cf.ThreadPoolExecutor(2) as ex:
                fut = ex.submit(run_models, oc, tier, workdir)
                for p in PARTS:
                    out = os.path.join(workdir, f"part{p}.ndjson")
                    ng = cfg.get("groups_part", {}).get(p, cfg["groups"])
                    run_harness(exes[p], ["--tier", tier, "--seed", str(seed), "--groups", str(ng)], out)
                    traces.append((out, {"part": p, "seed": seed, "groups": ng, "tier": tier}))
                # witnesses of open known findings (explicit groups, re-run on every check)
                for i, ent in enumerate(oc.known["open"]):
                    w = ent.get("witness") or {}
                    if ent.get("property") == prop and w.get("family") == "optim":
                        out = os.path.join(workdir, f"witness{i}.ndjson")
                        run_harness(exes[w["part"]], ["--tier", w.get("tier", "quick"), "--seed", str(w["seed"]), "--groups", str(w["groups"]),
                                                      "--group", str(w["group"])], out)
                        traces.append((out, {"part": w["part"], "seed": w["seed"], "groups": w["groups"], "tier": w.get("tier", "quick"),
                                             "witness_of": i}))
                validate(oc, traces, cfg["per_chunk"], workdir, cfg["timeout"])
                model_info = fut.result()
            for path, _ in traces[:2]:
                oc.samples += sample_of(open(path).read().splitlines())
            required = required_cells(tier)
            missing = [k for k in required if oc.cov.get(k, 0) == 0]
            if missing and not oc.violations:
                # vacuity guard: a cell of the plan that no event reached is a defect of the generator, not a verdict
                raise V.ToolFailure(f"coverage cells not reached ({len(missing)}): {missing[:12]}")
            if missing:
                # the code under test behaved so differently that planned cells stayed empty; the violations say why
                oc.notes.append(f"coverage cells not reached: {missing[:12]}")
                V.log(f"note: coverage cells not reached: {missing[:12]}")
        sig = {}
        for b, _ in oc.violations:
            k = f"{b.get('clause')}|{b.get('stratum')}|fam={b.get('fam')}|strategy={'shared' if b.get('shared') else 'fresh'}|w={b.get('w')}"
            sig[k] = sig.get(k, 0) + 1
        oc.extra["violation_signatures"] = dict(sorted(sig.items()))
        oc.extra["design_models"] = model_info
        oc.extra["runs_of_minimize"] = oc.cov.get("cb|initial", 0)
        oc.extra["iterations_validated"] = sum(v for k, v in oc.cov.items() if k.startswith("iter|"))
        oc.extra["environment_assumptions_observed"] = {k: v for k, v in oc.cov.items() if k.startswith(("A3|", "pred_red<=0-step|", "reset|"))}
        oc.extra["required_cells"] = len(required)
        rule = ("states/transitions: TLC's counts over the Minimize design-model runs (all behaviours in scope) plus the trace-validation "
                "runs; one evaluation = one recorded event (begin / callback / hook iteration / exit / end) judged by TraceOptim; "
                "cells = re-derived by the trace spec from the logged fields (acceptance reason per strategy, class of rho and pred_red, "
                "status, options, family, shape, mode, minimiser clause per kind|shape|mode, A3 / null-step / reset observations)")
        return oc.finish("model_checking", rule, ASSUME,
                         extra_cov={"checker_cmd": "TLC on Minimize.tla (BFS, configurations in the evidence) and TraceOptim.tla (one process per trace chunk)"})
    finally:
        shutil.rmtree(workdir, ignore_errors=True)
