"""C20 - polynomial, quadrature and search utilities (family "poly").

  design model   spec/BSearch.tla (PlusCal, binary_interval_search as coded) checked exhaustively by TLC:
                 every sorted range of length <= 8 over a six-letter alphabet (3003) x 13 queries, for the evenly
                 spaced and the skewed alphabet (interpolated pivot), the bisection path, and ANY clamped pivot
  traces         harness/poly.cpp executes the real library; spec/TracePoly.tla evaluates the mathematical
                 definitions over exact rationals on every recorded call (bases K=0..10, Lagrange, monomial
                 derivatives / integral, LGR 1..16, |quadratic| integrals, search results)
  exhaustive     the search is replayed for every range x query of the model's universe for several key / range
                 types; the trace spec certifies that the enumeration is complete (coverage.exhaustive)
"""
import concurrent.futures as cf
import json
import os
import shutil
import subprocess

import verif as V

JOBS = int(os.environ.get("VERIF_JOBS", str(V.NCPU)))          # TLC processes in total (trace chunks + design-model runs)
MODEL_JOBS = max(1, min(4, JOBS // 4))                          # of which: concurrent design-model runs
TRACE_JOBS = max(1, JOBS - MODEL_JOBS)

ASSUME = [
    "oracle: closed-form / recurrence / Cox-de Boor definitions, exact polynomial algebra and exact sign analysis over rationals (spec/TracePoly.tla); the only inexact step is the square root of the discriminant (enclosure of width 2^-220, its effect is bounded and added to the tolerance)",
    "tolerances: 1e-9 relative to the largest entry of the defining column (basis coefficients), 1e-9 * max(1, |exact|) (monomials, LGR moments, |quadratic| integrals), 1e-9 absolute for non-negativity / partition of unity / end points, 1e-9 relative to the size of the evaluation's terms for p_i(t_j) = delta_ij",
    "domains: degrees K = 0..10, derivative orders 0..K+1, LGR sizes 1..16 (compile-time lists of the harness); Lagrange nodes pairwise >= 1/64 apart in [-8, 8]; quadratics and intervals in [-10, 10], t0 <= t1; search keys finite and sorted (re-checked by the trace spec)",
    "binary_interval_search: the design model proves the four cases for every clamped pivot; the binding to the code is by results only (no hook records the pivots). Exhaustive part: all sorted ranges of length <= 8 over two six-letter alphabets x 13 queries; longer ranges and widely scaled floating-point keys are random samples",
    "TLC, the JVM and the BigRat Java override (differentially tested against the plain TLA+ definitions) are trusted",
]

# exhaustive search enumerations: (variant, alphabet)
EXH_QUICK = [("dd", "even"), ("dd", "skew"), ("ii", "even"), ("ii", "skew"), ("key", "even"), ("wo", "skew"),
             ("id", "skew"), ("di", "even"), ("dq", "even"), ("ff", "skew")]
EXH_THOROUGH = [(v, a) for v in ("dd", "dq", "ii", "id", "di", "ff", "key", "wo") for a in ("even", "skew")]
LONG_VARIANTS = ["dd", "ii", "id", "di", "key", "wo"]

PLAN = {
    "quick": dict(models=["BSearch_even_interp", "BSearch_skew_interp", "BSearch_bisect", "BSearch_any"],
                  monoderiv=12, lagrange=3, absint=400, long=60, wide=200, exh=EXH_QUICK),
    "thorough": dict(models=["BSearch_even_interp", "BSearch_skew_interp", "BSearch_bisect", "BSearch_any", "BSearch_any8"],
                     monoderiv=100, lagrange=60, absint=40000, long=30000, wide=20000, exh=EXH_THOROUGH),
}
# number of TLC processes a trace kind is split into (JVM start + SelfCheck cost about 2 s per process);
# an exhaustive search enumeration ("search") and a program ("prog") are never split
PROCS = {"quick": {"static": 2, "monoderiv": 2, "lagrange": 1, "absint": 2, "searchlong": 1, "searchwide": 1},
         "thorough": {"static": 3, "monoderiv": 6, "lagrange": 6, "absint": 16, "searchlong": 16, "searchwide": 4}}


def harness():
    return V.build_one("poly.cpp", [])


def run_harness(exe, args, out):
    try:
        r = subprocess.run([exe] + args + ["--out", out], capture_output=True, text=True, timeout=900)
    except subprocess.TimeoutExpired:
        raise V.ToolFailure(f"harness {' '.join(args)} timed out (a search that does not terminate shows up here)")
    if r.returncode == 3 and os.path.exists(out):
        # the harness recorded the library call that crashed / did not return as the last event: a verdict, not a tool failure
        with open(out, "rb") as fh:
            last = fh.read().splitlines()[-1:]
        if last and b'"crash":' in last[0]:
            return
    if r.returncode != 0:
        raise V.ToolFailure(f"harness {exe} {' '.join(args)} failed rc={r.returncode}: {r.stderr[-1000:]}")


def fhex(q):
    return float.hex(V.quad_to_float(q))


QUAD_FIELDS = {"u", "ts", "t0", "t1", "A", "B", "C", "out", "xs", "ws", "rq", "qq", "M", "rows"}


def human(ev, skip=()):
    """event with its exactly logged doubles turned into floats (integer fields - search keys, positions - stay as they are)"""
    return {k: (V.dequad(x) if k in QUAD_FIELDS else x) for k, x in ev.items() if k not in skip}


def prog_line(ev):
    """the explicit-operand program line that re-executes one recorded event"""
    op = ev["op"]
    if op == "absint":
        return "absint " + " ".join(fhex(ev[k]) for k in ("t0", "t1", "A", "B", "C"))
    if op == "lagrange":
        return f"lagrange {ev['K']} " + " ".join(fhex(t) for t in ev["ts"])
    if op in ("monoderiv", "monoderivs"):
        return f"monoderiv {ev['K']} {fhex(ev['u'])}"
    if op in ("basis", "monoint", "lgr"):
        return op
    if op == "search":
        if "rq" in ev:
            return (f"searchwide {len(ev['qq'])} " + " ".join(fhex(t) for t in ev["qq"]) + f" {len(ev['rq'])} "
                    + " ".join(fhex(t) for t in ev["rq"])).strip()
        return (f"search {ev['var']} {ev['den']} {len(ev['q'])} " + " ".join(map(str, ev["q"])) + f" {len(ev['r'])} "
                + " ".join(map(str, ev["r"]))).strip()
    return op


def run_models(names, workdir):
    """design model runs (independent of the implementation under test)"""
    res = {}
    with cf.ThreadPoolExecutor(MODEL_JOBS) as ex:
        futs = {ex.submit(V.run_tlc, "BSearch", n + ".cfg", workdir, None, 1, 3000): n for n in names}
        for f in cf.as_completed(futs):
            n = futs[f]
            r = f.result()
            if r["rc"] != 0 or r["distinct"] == 0:
                raise V.ToolFailure(f"design model BSearch/{n} did not pass (rc={r['rc']}): the model mirrors the pinned code and is "
                                    f"expected to hold; inspect with `tlc -config {n}.cfg BSearch.tla`\n{r['out'][-2500:]}")
            res[n] = {"states": r["distinct"], "transitions": max(r["states"] - 1, 0), "depth": r["depth"]}
    return res


def validate(oc, traces, workdir, tier, timeout=3000):
    """traces: list of (path, kind, meta); returns merged exhaustiveness records"""
    work = []
    for path, kind, meta in traces:
        nlines = sum(1 for _ in open(path))
        procs = PROCS[tier].get(kind)
        chunks, lines = V.split_trace(path, -(-nlines // procs) if procs and nlines else 10 ** 9)
        for cp, first in chunks:
            work.append((cp, first, meta, lines))
    work.sort(key=lambda w: -os.path.getsize(w[0]))
    exh = {}
    with cf.ThreadPoolExecutor(TRACE_JOBS) as ex:
        futs = {ex.submit(V.validate_chunk, "TracePoly", "TracePoly.cfg", cp, workdir, timeout): (cp, first, meta, lines)
                for cp, first, meta, lines in work}
        for f in cf.as_completed(futs):
            cp, first, meta, lines = futs[f]
            v, r = f.result()
            oc.states += r["distinct"]
            oc.transitions += max(r["states"] - 1, 0)
            oc.traces += 1
            oc.events += v["lines"]
            oc.add_cov(v.get("cov") or {})
            for k, rec in (v.get("exh") or {}).items():
                if k in exh:      # an exhaustive enumeration must live in one unsplit trace
                    raise V.ToolFailure(f"exhaustive enumeration {k} was split over several traces")
                exh[k] = rec
            for b in v["bad"]:
                if b["clause"].startswith("TOOL."):
                    raise V.ToolFailure(f"harness / specification problem (not a verdict): {b} in {cp}")
                ev = json.loads(lines[first + b["line"] - 1])
                b2 = dict(b)
                b2["line"] = first + b["line"]
                b2["g"] = ev.get("basis") or ev.get("var")
                b2["sc"] = "d"
                payload = {"family": "poly", "prog": [prog_line(ev)], "from": meta,
                           "event": human(ev, skip=("M", "rows"))}
                oc.bad_step(b2, payload)
            os.remove(cp)
            vp = cp + ".verdict.json"
            if os.path.exists(vp):
                os.remove(vp)
    return exh


def sample_events(oc, traces):
    want = {"static": 47, "absint": 30, "search": 1500, "lagrange": 9, "monoderiv": 100}
    seen = set()
    for path, kind, meta in traces:
        if kind in want and kind not in seen:
            seen.add(kind)
            with open(path) as fh:
                for i, ln in enumerate(fh):
                    if i == want[kind]:
                        ev = json.loads(ln)
                        oc.samples.append(human(ev))
                        break


def witnesses(oc, prop, exe, workdir):
    traces = []
    for i, ent in enumerate(oc.known["open"]):
        w = ent.get("witness")
        if ent.get("property") != prop or not w or w.get("family") != "poly":
            continue
        prog = os.path.join(workdir, f"witness_{i}.prog")
        with open(prog, "w") as fh:
            fh.write("\n".join(w["prog"]) + "\n")
        out = os.path.join(workdir, f"witness_{i}.ndjson")
        run_harness(exe, ["--prog", prog], out)
        traces.append((out, "prog", {"witness_of": i, "prog": w["prog"]}))
    return traces


def check(prop, tier, seed, replay=None):
    oc = V.Outcome(prop, tier, seed)
    workdir = os.path.join(V.BUILD, "work", f"{prop}_{os.getpid()}")
    os.makedirs(workdir, exist_ok=True)
    try:
        exe = harness()
        traces = []
        models = {}
        exh = {}
        if replay:
            rp = json.load(open(replay))
            prog = os.path.join(workdir, "replay.prog")
            with open(prog, "w") as fh:
                fh.write("\n".join(rp["prog"]) + "\n")
            out = os.path.join(workdir, "replay.ndjson")
            run_harness(exe, ["--prog", prog], out)
            traces.append((out, "prog", {"replay_of": replay}))
            oc.known = {"open": [], "fixed": []}   # a replay reports what it sees
            validate(oc, traces, workdir, tier)
            expected_exh = []
        else:
            plan = PLAN[tier]
            with cf.ThreadPoolExecutor(2) as bg:
                mfut = bg.submit(run_models, plan["models"], workdir)     # runs beside the trace validation

                def part(kind, args, name=None, into=None):
                    out = os.path.join(workdir, (name or kind) + ".ndjson")
                    run_harness(exe, ["--part", kind, "--seed", str(seed)] + args, out)
                    if into is None:
                        traces.append((out, kind, {"part": kind, "args": args, "seed": seed}))
                    else:                      # several harness runs validated as one trace
                        with open(into, "a") as dst, open(out) as src:
                            shutil.copyfileobj(src, dst)
                        os.remove(out)

                static = os.path.join(workdir, "static.ndjson")       # no operands: the same in both tiers
                for kind in ("basis", "monoint", "lgr"):
                    part(kind, [], into=static)
                traces.append((static, "static", {"part": "basis+monoint+lgr"}))
                part("monoderiv", ["--n", str(plan["monoderiv"])])
                part("lagrange", ["--n", str(plan["lagrange"])])
                part("absint", ["--n", str(plan["absint"])])
                for var, alpha in plan["exh"]:
                    part("search", ["--var", var, "--alpha", alpha], name=f"search_{var}_{alpha}")
                longs = os.path.join(workdir, "searchlong.ndjson")
                for var in LONG_VARIANTS:
                    part("searchlong", ["--var", var, "--n", str(plan["long"])], name=f"searchlong_{var}", into=longs)
                traces.append((longs, "searchlong", {"part": "searchlong", "variants": LONG_VARIANTS, "n": plan["long"], "seed": seed}))
                part("searchwide", ["--n", str(plan["wide"])])
                traces += witnesses(oc, prop, exe, workdir)
                exh = validate(oc, traces, workdir, tier)
                models = mfut.result()
                oc.states += sum(m["states"] for m in models.values())
                oc.transitions += sum(m["transitions"] for m in models.values())
            expected_exh = [f"{v}|{a}" for v, a in plan["exh"]]
            sample_events(oc, traces)
        # the exhaustive part: every enumeration complete, as certified by the trace spec
        incomplete = [k for k in expected_exh if not (exh.get(k) or {}).get("complete")]
        noreturn = any(b.get("clause") == "C20.search.noreturn" for b, _ in oc.violations)
        if incomplete and not noreturn:        # (an enumeration cut short by a crashing library call is reported as the violation)
            raise V.ToolFailure(f"exhaustive search enumeration incomplete for {incomplete}: {exh}")
        searches = sum(v for k, v in oc.cov.items() if k.startswith("search.case"))
        oc.extra["exhaustive"] = bool(expected_exh) and not incomplete
        oc.extra["exhaustive_part"] = {
            "what": "C20.search: every sorted range of length <= 8 over a six-letter alphabet (3003, with repeats, incl. empty) x 13 queries "
                    "(below / on / between / above the letters), per (key type, alphabet); completeness certified by TracePoly (strictly "
                    "increasing enumeration, count = C(14,8)); also C20.basis / C20.mono.integral / C20.lgr are complete over their finite "
                    "index sets (8 bases x K=0..10, K x P, 1..16 nodes)",
            "enumerations": exh, "searches_checked": searches}
        oc.extra["design_models"] = models
        rule = ("one evaluation = one recorded library call (or one 13-/16-query batch on one range) validated by TLC against the definition; "
                "cells = operation | stratum re-derived by the trace spec (basis|K, K|P, coefficient-magnitude class of the quadratic and "
                "number of sign changes inside the interval, key type | alphabet, documented case of each query); "
                "distinct_nontrivial = number of non-empty cells; states/transitions include the BSearch design-model runs")
        rc = oc.finish("model_checking", rule, ASSUME,
                       extra_cov={"checker_cmd": "java tlc2.TLC -config BSearch_<variant>.cfg BSearch.tla ; java tlc2.TLC -config TracePoly.cfg TracePoly.tla (one process per trace chunk)"})
        return rc
    finally:
        shutil.rmtree(workdir, ignore_errors=True)
