"""C17: relations and conversions between groups, decided by trace validation against spec/TraceRel.tla."""
import concurrent.futures as cf
import json
import os
import shutil
import subprocess

import verif as V

ASSUME = [
    "oracle: documented matrix forms (spec/Groups.tla), certified matrix exponential, 60-digit enclosure of pi",
    "SE_K_3<1>/SE3 and SE_K_3<2>/Galilei are compared operation by operation on stratified elements/tangents (samples)",
    "TLC, JVM, BigRat/RFun overrides and the recording code are trusted",
]
PLAN = {"quick": dict(n=33, scalars=["d", "f"], chunk=120), "thorough": dict(n=1100, scalars=["d", "f"], chunk=400)}


def check(prop, tier, seed, replay=None):
    oc = V.Outcome(prop, tier, seed)
    workdir = os.path.join(V.BUILD, "work", f"{prop}_{os.getpid()}")
    os.makedirs(workdir, exist_ok=True)
    cfg = PLAN[tier]
    traces = []
    if replay:
        rp = json.load(open(replay))
        exe = V.build_one("rel.cpp", [f"VH_SCALAR={'float' if rp['sc'] == 'f' else 'double'}"])
        out = os.path.join(workdir, "replay.ndjson")
        subprocess.run([exe, "--n", str(rp["n"]), "--seed", str(rp["seed"]), "--out", out], check=True, timeout=600)
        lines = open(out).read().splitlines()
        with open(out, "w") as fh:
            fh.write(lines[rp["line"] - 1] + "\n")
        traces.append((out, rp))
        oc.known = {"open": [], "fixed": []}
    else:
        exes = V.build_many([("rel.cpp", [f"VH_SCALAR={'float' if sc == 'f' else 'double'}"]) for sc in cfg["scalars"]])
        for sc, exe in zip(cfg["scalars"], exes):
            out = os.path.join(workdir, f"rel_{sc}.ndjson")
            r = subprocess.run([exe, "--n", str(cfg["n"]), "--seed", str(seed), "--out", out], capture_output=True, text=True, timeout=900)
            if r.returncode != 0:
                raise V.ToolFailure(f"rel harness failed: {r.stderr[-800:]}")
            traces.append((out, {"family": "rel", "sc": sc, "n": cfg["n"], "seed": seed}))
    work = []
    for path, meta in traces:
        chunks, lines = V.split_trace(path, cfg["chunk"])
        work += [(cp, first, meta, lines) for cp, first in chunks]
    with cf.ThreadPoolExecutor(V.NCPU) as ex:
        futs = {ex.submit(V.validate_chunk, "TraceRel", "TraceRel.cfg", w[0], workdir, 1500): w for w in work}
        for f in cf.as_completed(futs):
            cp, first, meta, lines = futs[f]
            v, r = f.result()
            oc.states += r["distinct"]
            oc.transitions += max(r["states"] - 1, 0)
            oc.traces += 1
            oc.events += v["lines"]
            oc.add_cov(v.get("cov") or {})
            for b in v["bad"]:
                if b["clause"].startswith("TOOL."):
                    raise V.ToolFailure(f"tool-level problem: {b}")
                ev = json.loads(lines[first + b["line"] - 1])
                b2 = dict(b)
                b2["line"] = first + b["line"]
                b2["sc"] = ev.get("sc")
                b2["sub"] = ev.get("sub")
                payload = dict(meta)
                payload["line"] = first + b["line"]
                payload["event"] = {k: V.dequad(x) for k, x in ev.items()}
                oc.bad_step(b2, payload)
    with open(traces[0][0]) as fh:
        for i, ln in enumerate(fh):
            if i in (8, 9, 10, 25):
                oc.samples.append({k: V.dequad(x) for k, x in json.loads(ln).items()})
    rule = "one evaluation = one recorded relation/conversion event validated by TLC; cells = operation|sub-operation"
    rc = oc.finish("model_checking", rule, ASSUME, extra_cov={"checker_cmd": "TLC on TraceRel.tla"})
    shutil.rmtree(workdir, ignore_errors=True)
    return rc
