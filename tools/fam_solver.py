"""C10 - the trust-region step solver (solve_linear_ldlt, solve_trust_region, colwise_norm).

The harness harness/solver.cpp executes the real library on generated systems for every storage of J
(dense col-/row-major/fixed size, sparse row-/col-major, stored zeros, uncompressed) and records operands and
results exactly; TLC validates every recorded call with spec/TraceSolver.tla in exact rational arithmetic."""
import concurrent.futures as cf
import json
import os
import shutil
import subprocess

import verif as V

JOBS = int(os.environ.get("VERIF_JOBS", V.NCPU))

TIERS = {
    # nbig: systems with a side in 21..40 (a quarter of them 40 x 40); 6x (quick) / 10x (thorough) as many 7..20;
    # plus every shape <= 6 x 6 x rank pattern x entry kind, once (quick) or 60 times (thorough)
    # thorough: three independent rounds (harness seeds seed, seed+7919, seed+2*7919), validated one after the other
    "quick": dict(nbig=8, chunks=JOBS, timeout=900, rounds=1),
    "thorough": dict(nbig=200, chunks=4 * JOBS, timeout=3000, rounds=3),
}

ASSUME = [
    "oracle: exact rational arithmetic on the logged doubles (spec/TraceSolver.tla): exact residual of the normal equations; "
    "certified condition bound trace(H)/(lambda min d_i^2); dphi from approximate exact-arithmetic solves with rigorous a-posteriori "
    "error bounds (|H^-1| <= 1/(lambda min d_i^2)), formula cross-checked against the limit definition on every system with n <= 3",
    "the property states no tolerance for dphi: 1e-6 relative where the certified condition bound is <= 1e8, sign only beyond",
    "backward error measured norm-wise in the infinity norm: |H dx + J'r| <= 1e-8 (|H| |dx| + |J'r|)",
    "inputs are a stratified sample (all shapes <= 6x6 x rank pattern; sampled up to 40x40), not all matrices; right-hand sides in "
    "general position, zero, consistent, or exactly orthogonal to range(J) - r within rounding of orthogonality is not sampled",
    "TLC, the JVM and the BigRat Java override (differentially tested against the plain TLA+ definitions) are trusted",
]

STORAGES = ["dense", "drow", "dfix", "srow", "scol", "scolz", "srowu"]


def required_cells(tier):
    req = []
    for op in ("ldlt", "tr", "colnorm"):
        req += [f"{op}|st|{s}" for s in STORAGES]
        req += [f"{op}|shape|{m}x{n}" for m in range(1, 7) for n in range(1, 7)]
    for k in range(-6, 7):
        req += [f"ldlt|lambda|1e{k}", f"tr|Delta|1e{k}"]
    for pat in ("zero", "zcol", "dep", "wide", "gen"):
        req += [f"tr|{pat}|S", f"colnorm|{pat}|S", f"ldlt|{pat}|S|cert"]
    # SCALE strata: J of size 1e-7 / 1e-3 / 1 / 1e3 with J'J dominant, balanced against and dominated by lambda D^2;
    # certified dense/sparse comparisons at the smallest scale; uniformly small / large d
    for sc in ("tiny", "small", "unit", "large"):
        req += [f"ldlt|scale|{sc}|balanced", f"tr|scale|{sc}|balanced", f"agree|cert|{sc}", f"colnorm|scale|{sc}"]
    req += ["ldlt|scale|tiny|Jdominant", "tr|scale|tiny|Jdominant", "ldlt|scale|unit|Jdominant", "ldlt|scale|tiny|Rdominant",
            "agree|excluded|unit", "d|all<=1e-3", "d|all>=1e2"]
    req += ["ldlt|gen|L|cert", "ldlt|gen|M|cert", "dphi|tol1e-6|S", "dphi|tol1e-6|M", "dphi|tol1e-6|L",
            "dphi|signonly|S", "dphi|zero|S", "dphi|limit-definition-selfcheck", "d|le1e-6", "d|ge1e3", "d|ones",
            "r|zero", "r|orthogonal", "r|generic", "ldlt|entries|integer", "ldlt|entries|double", "tr|gen|L", "colnorm|gen|L"]
    if tier == "thorough":
        req += [f"ldlt|{pat}|L|cert" for pat in ("zero", "zcol", "dep", "wide", "gen")]
        req += [f"ldlt|{pat}|{sz}|excluded" for pat in ("zcol", "dep", "wide", "gen") for sz in ("S", "M", "L")]
    return req


def run_harness(exe, args, out, timeout=900):
    r = subprocess.run([exe] + args + ["--out", out], capture_output=True, text=True, timeout=timeout)
    if r.returncode != 0:
        raise V.ToolFailure(f"harness {exe} {' '.join(args)} failed rc={r.returncode}: {r.stderr[-1000:]}")


def hexf(x):
    return float(x).hex()


def prog_line(ev):
    """explicit program line (exact hex floats) reproducing one recorded event"""
    m, n = ev["m"], ev["n"]
    what = {"ldlt": 1, "tr": 2, "colnorm": 4}[ev["op"]]
    J = V.dequad(ev["J"])
    d = V.dequad(ev["d"]) if "d" in ev else [1.0] * n
    r = V.dequad(ev["r"]) if "r" in ev else [0.0] * m
    lam = V.dequad(ev["lam"]) if "lam" in ev else 1.0
    Delta = V.dequad(ev["Delta"]) if "Delta" in ev else 1.0
    toks = ["sys", str(ev["id"]), str(m), str(n), str(what)] + [str(t) for t in ev["dep"]] + [hexf(lam), hexf(Delta)]
    toks += [hexf(x) for row in J for x in row] + [hexf(x) for x in d] + [hexf(x) for x in r]
    return " ".join(toks)


def cost(ev_line):
    """rough TLC cost of one event (ms) from its header, for balancing the chunks"""
    head = ev_line[:120]
    try:
        m = int(head.split('"m":')[1].split(",")[0])
        n = int(head.split('"n":')[1].split(",")[0])
    except (IndexError, ValueError):
        return 50
    if '"op":"ldlt"' in head:
        return 15 + n ** 3 / 12 + m * n * n / 60
    if '"op":"tr"' in head:
        return 12 + m * n * n / 40
    return 5 + m * n / 20


def balanced_chunks(path, nchunks):
    lines = open(path).read().splitlines()
    if not lines:
        raise V.ToolFailure(f"empty trace {path}")
    if '"op":"TRUNCATED"' in lines[-1]:
        raise V.ToolFailure(f"trace {path} truncated (harness terminated abnormally)")
    nchunks = max(1, min(nchunks, len(lines)))
    bins = [[0.0, []] for _ in range(nchunks)]
    for idx in sorted(range(len(lines)), key=lambda i: -cost(lines[i])):
        b = min(bins, key=lambda t: t[0])
        b[0] += cost(lines[idx])
        b[1].append(idx)
    outs = []
    for k, (c, idxs) in enumerate(bins):
        if not idxs:
            continue
        idxs.sort()
        p = f"{path}.{k:04d}"
        with open(p, "w") as fh:
            fh.write("\n".join(lines[i] for i in idxs) + "\n")
        outs.append((p, idxs, c))
    return outs, lines


def validate(oc, path, meta, nchunks, workdir, timeout):
    chunks, lines = balanced_chunks(path, nchunks)
    chunks.sort(key=lambda t: -t[2])
    with cf.ThreadPoolExecutor(JOBS) as ex:
        futs = {ex.submit(V.validate_chunk, "TraceSolver", "TraceSolver.cfg", cp, workdir, timeout): (cp, idxs) for cp, idxs, _ in chunks}
        for f in cf.as_completed(futs):
            cp, idxs = futs[f]
            v, r = f.result()
            oc.states += r["distinct"]
            oc.transitions += max(r["states"] - 1, 0)
            oc.traces += 1
            oc.events += v["lines"]
            oc.add_cov(v.get("cov") or {})
            for b in v["bad"]:
                orig = idxs[b["line"] - 1]
                ev = json.loads(lines[orig])
                b2 = dict(b)
                b2["line"] = orig + 1
                b2["m"], b2["n"], b2["kind"] = ev.get("m"), ev.get("n"), ev.get("kind")
                if b["clause"].startswith("TOOL."):
                    raise V.ToolFailure(f"harness/oracle problem (not a verdict): {b2} in {cp}")
                payload = dict(meta)
                payload.update({"family": "solver", "prog": [prog_line(ev)], "line": orig + 1,
                                "event": {k: V.dequad(x) if k != "res" else [{kk: V.dequad(vv) if kk != "st" else vv for kk, vv in r_.items()} for r_ in x]
                                          for k, x in ev.items()}})
                oc.bad_step(b2, payload)
            for p in (cp, cp + ".verdict.json"):
                if os.path.exists(p):
                    os.remove(p)
    return lines


def sample_of(line):
    ev = json.loads(line)
    out = {k: V.dequad(x) for k, x in ev.items() if k != "res"}
    out["res"] = [{kk: (V.dequad(vv) if kk != "st" else vv) for kk, vv in r.items()} for r in ev["res"][:2]]
    return out


def check(prop, tier, seed, replay=None):
    if prop != "C10":
        raise V.ToolFailure(f"fam_solver decides C10, not {prop}")
    cfg = TIERS[tier]
    oc = V.Outcome(prop, tier, seed)
    extra = os.environ.get("VERIF_KNOWN_EXTRA")
    if extra:
        # additional open known-finding entries (same format as known_findings.json), for trying an entry out
        oc.known = {"open": list(oc.known.get("open", [])) + list(json.load(open(extra)).get("open", [])),
                    "fixed": oc.known.get("fixed", [])}
    workdir = os.path.join(V.BUILD, "work", f"{prop}_{os.getpid()}")
    os.makedirs(workdir, exist_ok=True)
    try:
        exe = V.build_one("solver.cpp", [])
        if replay:
            rp = json.load(open(replay))
            prog = os.path.join(workdir, "replay.prog")
            with open(prog, "w") as fh:
                fh.write("\n".join(rp["prog"]) + "\n")
            out = os.path.join(workdir, "replay.ndjson")
            run_harness(exe, ["--prog", prog], out)
            oc.known = {"open": [], "fixed": []}   # a replay reports what it sees
            validate(oc, out, {"replay_of": replay, "tier": tier, "seed": seed}, 1, workdir, cfg["timeout"])
            required = []
        else:
            for rnd in range(cfg["rounds"]):
                out = os.path.join(workdir, f"gen{rnd}.ndjson")
                hseed = seed + 7919 * rnd
                run_harness(exe, ["--tier", tier, "--seed", str(hseed), "--nbig", str(cfg["nbig"])], out)
                lines = validate(oc, out, {"tier": tier, "seed": seed, "harness_seed": hseed}, cfg["chunks"], workdir, cfg["timeout"])
                if rnd == 0:
                    for i in (0, 4, len(lines) // 2):
                        if i < len(lines) and len(lines[i]) < 6000:
                            oc.samples.append(sample_of(lines[i]))
                del lines
                os.remove(out)
            # witnesses of open known findings (explicit systems, re-run on every check)
            wl = []
            for i, ent in enumerate(oc.known["open"]):
                w = ent.get("witness") or {}
                if ent.get("property") == prop and w.get("family") == "solver":
                    wl += list(w["prog"])
            if wl:
                prog = os.path.join(workdir, "witness.prog")
                with open(prog, "w") as fh:
                    fh.write("\n".join(wl) + "\n")
                wout = os.path.join(workdir, "witness.ndjson")
                run_harness(exe, ["--prog", prog], wout)
                validate(oc, wout, {"witness": True, "tier": tier, "seed": seed}, 1, workdir, cfg["timeout"])
            required = required_cells(tier)
        missing = [k for k in required if oc.cov.get(k, 0) == 0]
        if missing and not oc.violations:
            # vacuity guard: a cell of the plan that no event reached is a defect of the generator, not a verdict
            raise V.ToolFailure(f"coverage cells not reached ({len(missing)}): {missing[:12]}")
        if missing:
            oc.notes.append(f"coverage cells not reached: {missing}")
        rule = ("one evaluation = one recorded library call group (one system, every storage of J) validated by TLC in exact "
                "rational arithmetic; cells = operation | rank pattern | size class | certified condition class, storage, shape, "
                "decade of lambda / Delta, re-derived by the trace spec from the logged operands; distinct_nontrivial = non-empty cells")
        n_sys = oc.cov.get("ldlt|st|dense", 0)
        rc = oc.finish("model_checking", rule, ASSUME,
                       extra_cov={"systems": n_sys,
                                  "library_calls_judged": sum(v for k, v in oc.cov.items() if "|st|" in k),
                                  "agree_certified": sum(v for k, v in oc.cov.items() if k.startswith("agree|cert|")),
                                  "agree_excluded_by_condition_bound": sum(v for k, v in oc.cov.items() if k.startswith("agree|excluded|")),
                                  "required_cells": len(required),
                                  "checker_cmd": "java tlc2.TLC -config TraceSolver.cfg TraceSolver.tla (one process per trace chunk)"})
        return rc
    finally:
        shutil.rmtree(workdir, ignore_errors=True)
