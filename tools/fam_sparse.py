"""C19 - sparse Lie-group derivative routines equal the dense ones.

Three pieces, all judged by TLC:
  1. design model spec/SparseHost.tla (host sparse matrix + block writers structured like
     detail/lie_group_sparse_impl.hpp) checked exhaustively for small abstract groups / hosts / offsets,
     plus seeded specification mutants that TLC must reject (vacuity guard);
  2. harness/sparse.cpp executes the real routines on pre-allocated hosts and records the three compressed
     arrays before/after every call, the published pattern variable and the dense routine's result;
     spec/TraceSparse.tla validates every call against the model's prediction / the clauses C19.block, C19.frame;
  3. the published patterns are compared with the structural patterns TLC computes itself from Groups!Xad
     (clause C19.pattern, decided exactly when lower bound = upper bound).
"""
import concurrent.futures as cf
import json
import os
import shutil
import subprocess

import verif as V

# harness group numbers (harness/sparse.cpp)
GROUPS = {
    0: "SO2", 1: "SO3", 2: "SE2", 3: "SE3", 4: "C1", 5: "R:3", 6: "B(R:3,SO2)", 7: "B(R:3,SO3)",
    8: "B(SE2,SO2,R:2,SE3)", 9: "B(B(SO3,R:2),C1,SE2)", 10: "B(R:1,SO2,C1)", 11: "B(SO3,SO3)",
    12: "B(SE3,SE2)", 13: "B(B(SE2,SO2),B(R:2,SO3))", 14: "B(SE2,R:3,SO3,R:2,C1,B(R:3,SO3),SE3)",
    15: "B(SE2,B(C1,B(SE3,R:1)))",
}

PLAN = {
    "quick": dict(
        gs=[(g, "d") for g in range(14)] + [(g, "f") for g in (1, 2, 3, 9)],
        n=10, offsets=6, hmax={}, chunk=125,
    ),
    "thorough": dict(
        gs=[(g, "d") for g in range(16)] + [(g, "f") for g in range(14)],
        n=48, offsets=10, hmax={14: 48, 15: 400}, chunk=400,
    ),
}

# design-model runs: name -> constants; "expect": "ok" | "violation" (seeded specification mutants)
def _c(variant, kind, lead, tail, extra, missing, scope):
    return dict(Variant=variant, Kind=kind, MaxLead=lead, MaxTail=tail, MaxExtra=extra, AllowMissing=missing, Scope=scope)


MODELS = {
    "quick": [
        ("J", _c("code", "J", 2, 1, 1, False, "small"), "ok", 2),
        ("J-missing", _c("code", "J", 2, 1, 0, True, "small"), "ok", 1),
        ("H", _c("code", "H", 2, 1, 0, True, "small"), "ok", 2),
        ("AD", _c("code", "AD", 0, 0, 1, True, "small"), "ok", 1),
        ("mut-rows_only-J", _c("rows_only", "J", 2, 1, 0, False, "small"), "violation", 1),
        ("mut-rows_only-H", _c("rows_only", "H", 1, 0, 0, False, "small"), "violation", 1),
        ("mut-partdof-H", _c("partdof", "H", 1, 0, 0, False, "small"), "violation", 1),
        ("mut-bundle_drops_i0-J", _c("bundle_drops_i0", "J", 2, 0, 0, False, "small"), "violation", 1),
    ],
    "thorough": [
        ("J", _c("code", "J", 3, 1, 1, True, "small"), "ok", 4),
        ("J-large", _c("code", "J", 3, 1, 1, False, "large"), "ok", 4),
        ("H", _c("code", "H", 2, 1, 0, True, "large"), "ok", 4),
        ("H-extra", _c("code", "H", 1, 1, 1, False, "small"), "ok", 4),
        ("AD", _c("code", "AD", 0, 0, 2, True, "small"), "ok", 1),
        ("mut-rows_only-J", _c("rows_only", "J", 2, 1, 0, False, "small"), "violation", 1),
        ("mut-rows_only-H", _c("rows_only", "H", 1, 0, 0, False, "small"), "violation", 1),
        ("mut-partdof-H", _c("partdof", "H", 1, 0, 0, False, "small"), "violation", 1),
        ("mut-bundle_drops_i0-J", _c("bundle_drops_i0", "J", 2, 0, 0, False, "small"), "violation", 1),
        ("mut-bundle_drops_i0-H", _c("bundle_drops_i0", "H", 1, 0, 0, False, "small"), "violation", 1),
    ],
}

ASSUME = [
    "Eigen::SparseMatrix semantics used by the design model (coeffRef on a stored position does not change the structure, "
    "on a missing position it inserts and leaves the matrix uncompressed; '+=' keeps the union structure compressed) were "
    "probed on the Eigen 3.4.0 of this sandbox; hosts are built by the harness with the published pattern placed at the "
    "documented positions (row i0+r, column i0+c; Hessians: column R*(i0+c/Dof)+i0+c%Dof for a host with R rows)",
    "values are compared as numbers (the sign of a zero is not compared); a stored entry inside the block but outside the "
    "published pattern may either keep its value or hold the dense value (both readings of the property are accepted)",
    "C19.pattern is decided structurally: positions non-zero in some power ad(a)^k (resp. its a-derivative) at integer "
    "tangents (exact arithmetic, witnesses) must be published; the Boolean closure of the ad pattern is the upper bound; the "
    "check reports a tool failure if the two bounds differ for a group on the list (they do not)",
    "tangents, hosts and offsets on the real code are a stratified seeded sample; groups are the finite list in tools/fam_sparse.py; "
    "TLC, the JVM and the BigRat Java override are trusted",
]


def harness_jobs(gs):
    return [("sparse.cpp", [f"VH_GROUP={g}", f"VH_SCALAR={'float' if sc == 'f' else 'double'}"]) for g, sc in gs]


def run_harness(exe, args, out):
    r = subprocess.run([exe] + args + ["--out", out], capture_output=True, text=True, timeout=900)
    if r.returncode != 0:
        raise V.ToolFailure(f"harness {exe} {' '.join(args)} failed rc={r.returncode}: {r.stderr[-1000:]}")


# ----------------------------------------------------------------------------- design model

def write_cfg(path, consts):
    def lit(v):
        if isinstance(v, bool):
            return "TRUE" if v else "FALSE"
        if isinstance(v, int):
            return str(v)
        return f'"{v}"'
    with open(path, "w") as fh:
        fh.write("CONSTANTS\n")
        for k, v in consts.items():
            fh.write(f"  {k} = {lit(v)}\n")
        fh.write("INIT Init\nNEXT Next\n"
                 "INVARIANTS TypeOK Frame Structure BlockIsDense PatternComplete FlatEquiv PreNecessary\n"
                 "CHECK_DEADLOCK FALSE\n")


def run_model(name, consts, expect, workers, workdir, timeout):
    cfg = os.path.join(workdir, f"SparseHost_{name}.cfg")
    write_cfg(cfg, consts)
    r = V.run_tlc("SparseHost", cfg, workdir, workers=workers, timeout=timeout, xmx="4g")
    out = r["out"]
    ok = r["rc"] == 0 and "No error has been found" in out
    violated = "is violated" in out and "Invariant" in out
    if expect == "ok":
        if violated:
            inv = [ln for ln in out.splitlines() if "is violated" in ln][:1]
            raise V.ToolFailure(f"design model SparseHost[{name}] {consts}: {inv} - the model mirrors the code statically, "
                                f"so this is a modelling error, not a verdict:\n{out[-1500:]}")
        if not ok:
            raise V.ToolFailure(f"TLC failed on SparseHost[{name}] rc={r['rc']}:\n{out[-1500:]}")
    else:
        if not violated:
            raise V.ToolFailure(f"seeded specification mutant SparseHost[{name}] was not rejected (rc={r['rc']}) - the model's "
                                f"invariants are vacuous:\n{out[-1500:]}")
    return name, r, ("rejected" if violated else "ok")


# ----------------------------------------------------------------------------- trace validation

def collect(oc, traces, chunk, workdir, pool, timeout=2400):
    work = []
    for path, meta in traces:
        chunks, lines = V.split_trace(path, chunk)
        for cp, first in chunks:
            work.append((cp, first, meta, lines))
    work.sort(key=lambda w: -os.path.getsize(w[0]))
    futs = {pool.submit(V.validate_chunk, "TraceSparse", "TraceSparse.cfg", cp, workdir, timeout): (cp, first, meta, lines)
            for cp, first, meta, lines in work}
    return futs


def absorb(oc, futs):
    found = []
    for f in cf.as_completed(futs):
        cp, first, meta, lines = futs[f]
        v, r = f.result()
        oc.states += r["distinct"]
        oc.transitions += max(r["states"] - 1, 0)
        oc.traces += 1
        oc.events += v["lines"]
        oc.add_cov(v.get("cov") or {})
        for b in v["bad"]:
            ev = json.loads(lines[first + b["line"] - 1])
            b2 = dict(b)
            b2["line"] = first + b["line"]
            b2["g"] = ev.get("g")
            b2["sc"] = ev.get("sc")
            if b["clause"].startswith("TOOL."):
                raise V.ToolFailure(f"recording / precondition / decision problem: {b2} in {cp}")
            payload = {"family": "sparse", "g": meta["g"], "sc": meta["sc"], "group": GROUPS.get(meta["g"]),
                       "prog": [ev.get("prog", "patterns")], "line": first + b["line"]}
            small = {k: x for k, x in ev.items() if k in ("op", "g", "sc", "n", "i0", "a", "xm", "tail", "mincols")}
            payload["event"] = {k: V.dequad(x) for k, x in small.items()}
            found.append((0 if ev.get("op") == "patterns" else 1, meta["g"], meta["sc"], b2["line"], b2, payload))
        os.remove(cp)
        vp = cp + ".verdict.json"
        if os.path.exists(vp):
            os.remove(vp)
    # deterministic order: the structural pattern verdicts first, then calls by group and line
    for _, _, _, _, b2, payload in sorted(found, key=lambda t: t[:4]):
        oc.bad_step(b2, payload)


def witnesses(oc, prop, workdir):
    traces = []
    for i, ent in enumerate(oc.known["open"]):
        if ent.get("property") != prop or "witness" not in ent:
            continue
        w = ent["witness"]
        if w.get("family") != "sparse":
            continue
        exe = V.build_one(*harness_jobs([(w["g"], w["sc"])])[0])
        prog = os.path.join(workdir, f"witness_{i}.prog")
        with open(prog, "w") as fh:
            fh.write("\n".join(w["prog"]) + "\n")
        out = os.path.join(workdir, f"witness_{i}.ndjson")
        run_harness(exe, ["--prog", prog], out)
        traces.append((out, {"family": "sparse", "witness_of": i, "g": w["g"], "sc": w["sc"]}))
    return traces


# cells that every run must have visited (no vacuity): per operation
def missing_cells(cov, gs):
    miss = []
    ops = ["ad", "dr_exp", "dr_expinv", "d2r_exp", "d2r_expinv"]

    def has(pred):
        return any(pred(k) and v > 0 for k, v in cov.items())
    for op in ops:
        need = {
            "tan zero": lambda k: k == f"{op}|tan|zero",
            "tan single-axis": lambda k: k.startswith(f"{op}|tan|axis."),
            "tan small-angle branch": lambda k: k.startswith(f"{op}|tan|S0") and k[-3:] in ("S01", "S02", "S03") and "axis" not in k,
            "tan switch band": lambda k: k.endswith("S04") and k.startswith(f"{op}|tan|"),
            "tan generic": lambda k: k.startswith(f"{op}|tan|S0") and k[-3:] in ("S05", "S06", "S07", "S08"),
            "model prediction met": lambda k: k == f"{op}|model|exact",
            "bare host": lambda k: k.startswith(f"{op}|host|") and k.endswith("bare"),
            "extra entries inside the block": lambda k: k.startswith(f"{op}|host|") and ",in" in k,
        }
        if op != "ad":
            need.update({
                "extra entries around the block": lambda k: k.startswith(f"{op}|host|") and ",around" in k,
                "offset 0": lambda k: k.startswith(f"{op}|host|i0=0,"),
                "offset 1": lambda k: k.startswith(f"{op}|host|i0=1,"),
                "offset 2": lambda k: k.startswith(f"{op}|host|i0=2,"),
                "offset 3": lambda k: k.startswith(f"{op}|host|i0=3,"),
                "offset Dof": lambda k: k.startswith(f"{op}|host|i0=Dof,"),
                "offset > Dof": lambda k: k.startswith(f"{op}|host|i0=big,"),
                "rows after the block": lambda k: k.startswith(f"{op}|host|") and ",tail" in k,
                "no rows after the block": lambda k: k.startswith(f"{op}|host|") and ",notail" in k,
            })
        for name, pred in need.items():
            if not has(pred):
                miss.append(f"{op}: {name}")
    if cov.get("patterns|groups", 0) < len(gs):
        miss.append(f"patterns: {cov.get('patterns|groups', 0)} of {len(gs)} groups")
    return miss


def check(prop, tier, seed, replay=None):
    oc = V.Outcome(prop, tier, seed)
    workdir = os.path.join(V.BUILD, "work", f"{prop}_{os.getpid()}")
    os.makedirs(workdir, exist_ok=True)
    try:
        return _check(oc, prop, tier, seed, replay, workdir)
    finally:
        shutil.rmtree(workdir, ignore_errors=True)


def _check(oc, prop, tier, seed, replay, workdir):
    plan = PLAN[tier]
    traces = []
    model_results = []
    with cf.ThreadPoolExecutor(min(V.NCPU, int(os.environ.get("VERIF_JOBS", V.NCPU)))) as pool:
        mfuts = []
        if replay:
            rp = json.load(open(replay))
            g, sc = rp["g"], rp["sc"]
            exe = V.build_one(*harness_jobs([(g, sc)])[0])
            prog = os.path.join(workdir, "replay.prog")
            with open(prog, "w") as fh:
                fh.write("\n".join(rp["prog"]) + "\n")
            out = os.path.join(workdir, "replay.ndjson")
            run_harness(exe, ["--prog", prog], out)
            traces.append((out, {"family": "sparse", "g": g, "sc": sc, "replay_of": replay}))
            oc.known = {"open": [], "fixed": []}   # a replay reports what it sees
            gs = []
        else:
            # design models first (they need no build), then the harness runs
            for name, consts, expect, workers in MODELS[tier]:
                mfuts.append(pool.submit(run_model, name, consts, expect, workers, workdir, 3000))
            gs = plan["gs"]
            V.version_include()   # once, before the parallel builds (verif.version_include is not thread-safe on a fresh tree)
            exes = V.build_many(harness_jobs(gs))

            def one(gsc, exe):
                g, sc = gsc
                out = os.path.join(workdir, f"g{g}_{sc}.ndjson")
                args = ["--n", str(plan["n"]), "--offsets", str(plan["offsets"]), "--seed", str(seed)]
                if g in plan["hmax"]:
                    args += ["--hmax", str(plan["hmax"][g])]
                run_harness(exe, args, out)
                return out, {"family": "sparse", "g": g, "sc": sc, "seed": seed}
            for t in pool.map(one, gs, exes):
                traces.append(t)
            traces += witnesses(oc, prop, workdir)
        futs = collect(oc, traces, plan["chunk"], workdir, pool)
        absorb(oc, futs)
        for f in mfuts:
            name, r, what = f.result()
            oc.states += r["distinct"]
            oc.transitions += r["states"]
            model_results.append({"run": name, "result": what, "distinct_states": r["distinct"], "states_generated": r["states"], "depth": r["depth"]})
    # written-out samples
    for path, meta in [t for t in traces if t[1].get("g") in (3, 8, 9) or replay][:3]:
        with open(path) as fh:
            for i, ln in enumerate(fh):
                if i in (1, 25):
                    ev = json.loads(ln)
                    small = {k: x for k, x in ev.items() if k in ("op", "g", "sc", "n", "i0", "a", "xm", "tail", "prog")}
                    small["host_nnz"] = len(ev["pre"]["inner"])
                    small["host_shape"] = [ev["pre"]["rows"], ev["pre"]["cols"]]
                    small["pattern_nnz"] = len(ev["pat"]["inner"])
                    oc.samples.append({k: V.dequad(x) for k, x in small.items()})
    if not replay:
        miss = missing_cells(oc.cov, plan["gs"])
        if miss:
            raise V.ToolFailure("coverage cells not visited (the run would be vacuous for them): " + "; ".join(miss))
    rule = ("one evaluation = one recorded call of a *_sparse routine (host before/after, published pattern, dense result) "
            "validated by TLC against the design model's prediction and the clauses C19.block/C19.frame, or one group's three "
            "published patterns compared with the structural patterns TLC computes from Groups!Xad; states/transitions = TLC's "
            "counts summed over the SparseHost design-model runs (exhaustive for their constants) and the trace runs; "
            "cells = operation | tangent stratum, operation | host class, operation | model agreement, patterns | counters")
    rc = oc.finish("model_checking", rule, ASSUME,
                   extra_cov={"groups": [f"{GROUPS[m['g']]}/{m['sc']}" for _, m in traces if "g" in m],
                              "design_model_runs": model_results,
                              "exhaustive_parts": "SparseHost runs are exhaustive for their constants; C19.pattern is decided exactly per listed group",
                              "checker_cmd": "java tlc2.TLC SparseHost.tla (constants per run) ; java tlc2.TLC -config TraceSparse.cfg TraceSparse.tla (one process per trace chunk)"})
    return rc
