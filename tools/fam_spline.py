"""C12: Spline construction, concatenation and cropping.

(A) design model: spec/SplineModel.tla (Impl = five vectors + algorithms as coded, Abs = curve algebra) checked
    exhaustively by TLC (refinement at every grid time for every history in scope); the upstream crop
    variant is kept as a spec mutant that TLC must reject.
(B) binding: TLC-generated behaviours (simulation of the same model) are replayed on real Spline<K,double>
    objects; spec/TraceSpline.tla re-executes the model's actions on the logged operations and compares the
    five per-segment vectors (SplineProbe hook) and all observations; random programs on R^2/SO3/SE2/SE3 are
    validated against the abstract curve semantics in matrix space (spec/SplineRef.tla).
"""
import concurrent.futures as cf
import json
import math
import os
import random
import re
import shutil
import subprocess

import verif as V

GROUPS = {0: "R:1", 1: "R:2", 2: "SO3", 3: "SE2", 4: "SE3"}
DOF = {0: 1, 1: 2, 2: 3, 3: 3, 4: 6}
REP = {0: 1, 1: 2, 2: 4, 3: 4, 4: 7}

ASSUME = [
    "design model explored for G = R (exact rationals), K <= 3, bounded piece library / history length (constants in the evidence)",
    "group-valued splines are validated on sampled programs only (matrix-space reference semantics with certified exp)",
    "crop boundaries exactly on a value jump of a concat_global'd curve are outside what the property determines and are skipped",
    "TLC, JVM, BigRat/RFun overrides, the SplineProbe friend hook (SMOOTH_VERIF) and the recording code are trusted",
]


def exe_for(k, g):
    return V.build_one("spline.cpp", [f"VH_K={k}", f"VH_GROUP={g}"])


def fmt(x):
    return float(x).hex() if isinstance(x, float) else str(x)


def vec(xs):
    return ",".join(fmt(float(x)) for x in xs)


# ----------------------------------------------------------------------------- model checking

def write_cfg(path, K, max_ops, max_segs, variant, dur, crop, nv, starts, emit=False, light=False, mklocal="off"):
    with open(path, "w") as fh:
        fh.write("CONSTANTS\n")
        fh.write(f"  K = {K}\n  MaxOps = {max_ops}\n  MaxSegs = {max_segs}\n  CropVariant = \"{variant}\"\n")
        fh.write("  DurHalves = {" + ", ".join(map(str, dur)) + "}\n")
        fh.write("  CropQuarters = {" + ", ".join(map(str, crop)) + "}\n")
        fh.write(f"  NV = {nv}\n  StartVals = {{" + ", ".join(map(str, starts)) + "}\n")
        fh.write(f"  MakeLocalMode = \"{mklocal}\"\n")
        fh.write("INIT Init\nNEXT Next\n")
        if not emit:
            fh.write("VIEW View\n")
        fh.write("INVARIANT NoNaN\n" if light else "INVARIANT NoNaN\nINVARIANT TMaxAgree\nINVARIANT Refines\nINVARIANT RepInv\n")
        if emit:
            fh.write("INVARIANT Emit\n")
        fh.write("CHECK_DEADLOCK FALSE\n")


def model_runs(tier):
    crop_q = [0, 1, 3, 5, 7, 9, 11, 14]
    if tier == "quick":
        return [dict(K=1, ops=2, segs=3, dur=[2, 4], crop=crop_q, nv=2, starts=[0, 1], timeout=600),
                dict(K=3, ops=1, segs=3, dur=[2, 4], crop=crop_q, nv=2, starts=[0, 1], timeout=600)]
    return [dict(K=1, ops=3, segs=4, dur=[2, 4], crop=crop_q, nv=2, starts=[0, 1], timeout=3000),
            dict(K=2, ops=2, segs=3, dur=[1, 2, 4], crop=crop_q + [17], nv=3, starts=[0, 1], timeout=3000),
            dict(K=3, ops=2, segs=3, dur=[2, 4], crop=crop_q, nv=2, starts=[0, 1], timeout=3000)]


def run_models(oc, tier, workdir):
    info = []
    for m in model_runs(tier):
        cfg = os.path.join(workdir, f"sm_K{m['K']}_d{m['ops']}.cfg")
        write_cfg(cfg, m["K"], m["ops"], m["segs"], "fixed", m["dur"], m["crop"], m["nv"], m["starts"])
        r = V.run_tlc("SplineModel", cfg, workdir, workers=V.NCPU, timeout=m["timeout"], xmx="12g")
        ok = "No error has been found" in r["out"]
        if not ok and "is violated" not in r["out"]:
            raise V.ToolFailure(f"TLC failed on SplineModel K={m['K']}: {r['out'][-2000:]}")
        oc.states += r["distinct"]
        oc.transitions += max(r["states"] - 1, 0)
        info.append({"model": "SplineModel", "variant": "fixed", "K": m["K"], "MaxOps": m["ops"], "distinct_states": r["distinct"],
                     "result": "refinement holds" if ok else "REFINEMENT VIOLATED"})
        if not ok:
            mm = re.search(r"refinement fails at t.*?(?=Error:)", r["out"], re.S)
            oc.bad_step({"clause": "C12.model.refinement", "op": "model", "stratum": f"K{m['K']}",
                         "err": (mm.group(0)[:400] if mm else "invariant violated"), "tol": "exact"},
                        {"family": "spline", "model": "SplineModel", "cfg": open(cfg).read(), "tlc_tail": r["out"][-3000:]})
    # spec mutant: the upstream crop arithmetic must be rejected (non-vacuity of the refinement invariant)
    cfg = os.path.join(workdir, "sm_upstream.cfg")
    write_cfg(cfg, 1, 2, 3, "upstream", [2, 4], [0, 1, 3, 5, 7, 9, 11, 14], 2, [0, 1])
    r = V.run_tlc("SplineModel", cfg, workdir, workers=V.NCPU, timeout=600, xmx="12g")
    rejected = "is violated" in r["out"]
    info.append({"model": "SplineModel", "variant": "upstream (spec mutant)", "K": 1, "MaxOps": 2, "distinct_states": r["distinct"],
                 "result": "rejected by TLC as required" if rejected else "NOT rejected"})
    if not rejected:
        raise V.ToolFailure("the upstream-crop spec mutant was not rejected by TLC: the refinement invariant is vacuous")
    # beyond the listed properties: make_local() as coded (only g0 is reset).  Not a verdict - an observation kept in
    # the evidence: TLC shows that it does not refine y(t) = x(0)^-1 x(t) on multi-segment splines.
    cfg = os.path.join(workdir, "sm_mklocal.cfg")
    write_cfg(cfg, 1, 2, 3, "fixed", [2, 4], [0, 1, 3, 5, 7, 9, 11, 14], 2, [0, 1], mklocal="coded")
    r = V.run_tlc("SplineModel", cfg, workdir, workers=V.NCPU, timeout=600, xmx="12g")
    info.append({"model": "SplineModel", "variant": "make_local as coded (outside the listed properties, observation only)", "K": 1,
                 "MaxOps": 2, "distinct_states": r["distinct"],
                 "result": ("does not refine x(0)^-1 x(t): TLC counterexample" if "is violated" in r["out"]
                            else "refines x(0)^-1 x(t)" if "No error has been found" in r["out"] else "TLC did not finish")})
    oc.states += r["distinct"]
    return info


# ----------------------------------------------------------------------------- behaviours -> programs

def parse_hists(out):
    """extract the <<"HIST", <<...>>>> tuples printed by TLC into python lists (bracket matching)"""
    hists = []
    pos = 0
    while True:
        k = out.find('"HIST",', pos)
        if k < 0:
            break
        start = out.rfind("<<", 0, k)
        depth, p = 0, start
        while p < len(out):
            if out.startswith("<<", p):
                depth += 1
                p += 2
            elif out.startswith(">>", p):
                depth -= 1
                p += 2
                if depth == 0:
                    break
            else:
                p += 1
        txt = out[start:p]
        py = txt.replace("<<", "[").replace(">>", "]").replace("TRUE", "True").replace("FALSE", "False")
        try:
            v = eval(py)
            hists.append(v[1])
        except Exception:
            pass
        pos = p
    return hists


def simulate_behaviours(K, n_traces, depth, seed, workdir, light=False):
    cfg = os.path.join(workdir, f"sim_K{K}.cfg")
    write_cfg(cfg, K, depth, depth + 2, "fixed", [1, 2, 4], [0, 1, 2, 3, 4, 5, 6, 7, 9, 11, 13, 14, 17], 3, [0, 1], emit=True, light=light)
    r = V.run_tlc("SplineModel", cfg, workdir, workers=4, timeout=900, simulate=f"num={n_traces}",
                  extra=["-depth", str(depth + 2), "-seed", str(seed)])
    if "is violated" in r["out"] and "Emit" not in r["out"]:
        return parse_hists(r["out"]), r, True
    return parse_hists(r["out"]), r, False


def hist_to_program(h, K):
    """model behaviour -> harness program (register 0 = curve, 1 = appended piece) with evaluations"""
    lines = ["reset"]
    tmax = 0.0
    knots = [0.0]

    def q(p):
        return p[0] / p[1]

    def evals():
        ts = sorted(set([-0.25, tmax + 0.25] + knots + [k + 0.125 for k in knots[:-1]] + [tmax * 0.37, tmax]))
        out = [f"eval 0 {fmt(float(t))}" for t in ts]
        if K == 3:
            out += [f"arclen 0 {fmt(float(t))}" for t in (tmax * 0.37, tmax, tmax + 0.25)]
        return out

    for st in h:
        op = st[0]
        if op in ("seg", "catl", "catg"):
            T, Vs, ga = q(st[1]), [q(v) for v in st[2]], q(st[3])
            body = f"{fmt(T)} ; " + " ; ".join(fmt(v) for v in Vs) + f" ; {fmt(ga)}"
            if op == "seg":
                lines.append(f"seg 0 {body}")
                tmax = T
                knots = [0.0, T]
            else:
                lines.append(f"seg 1 {body}")
                lines.append(f"{op} 0 1")
                tmax += T
                knots.append(tmax)
        elif op == "crop":
            ta, tb, loc = q(st[1]), q(st[2]), st[3]
            lines.append(f"crop 0 0 {fmt(ta)} ; {fmt(tb)} ; {1 if loc else 0}")
            a, b = max(ta, 0.0), min(tb, tmax)
            knots = [0.0] + [k - a for k in knots if a < k < b] + [b - a]
            tmax = b - a
        lines += evals()
    return lines


def rand_elem(rng, g, identity=False):
    if g == 0:
        return [0.0 if identity else rng.uniform(-2, 2)]
    if g == 1:
        return [0.0, 0.0] if identity else [rng.uniform(-2, 2), rng.uniform(-2, 2)]

    def quat():
        if identity:
            return [0.0, 0.0, 0.0, 1.0]
        ax = [rng.gauss(0, 1) for _ in range(3)]
        n = math.sqrt(sum(a * a for a in ax))
        th = rng.uniform(0, 3.0)
        qq = [a / n * math.sin(th / 2) for a in ax] + [math.cos(th / 2)]
        n2 = math.sqrt(sum(a * a for a in qq))
        return [a / n2 for a in qq]
    if g == 2:
        return quat()
    if g == 3:
        if identity:
            return [0.0, 0.0, 0.0, 1.0]
        th = rng.uniform(-3, 3)
        return [rng.uniform(-2, 2), rng.uniform(-2, 2), math.sin(th), math.cos(th)]
    if identity:
        return [0.0, 0.0, 0.0] + quat()
    return [rng.uniform(-2, 2) for _ in range(3)] + quat()


def rand_tan(rng, g, scale=1.0):
    return [rng.uniform(-1, 1) * scale for _ in range(DOF[g])]


def random_program(rng, K, g, n_ops):
    lines = ["reset"]
    tmax, knots = 0.0, [0.0]

    def seg(dst, ident):
        T = rng.choice([0.5, 1.0, 2.0, rng.uniform(0.1, 3.0)])
        Vs = [rand_tan(rng, g, rng.choice([0.0, 0.3, 1.0])) for _ in range(K)]
        ga = rand_elem(rng, g, identity=ident)
        lines.append(f"seg {dst} {fmt(T)} ; " + " ; ".join(vec(v) for v in Vs) + f" ; {vec(ga)}")
        return T

    def evals(reg):
        pts = set([-0.3, tmax + 0.4, tmax, tmax * rng.random(), tmax * rng.random()] + knots)
        for k in knots[1:-1]:
            pts.add(math.nextafter(k, -1e9))
            pts.add(math.nextafter(k, 1e9))
        out = [f"eval {reg} {fmt(float(t))}" for t in sorted(pts)]
        if K == 3 and g in (0, 1):
            out += [f"arclen {reg} {fmt(float(t))}" for t in (tmax * rng.random(), tmax, tmax + 0.5)]
        return out

    kind = rng.random()
    if kind < 0.25:
        T = rng.choice([1.0, 2.5, rng.uniform(0.2, 4.0)])
        v = rand_tan(rng, g, 0.8)
        ga = rand_elem(rng, g)
        lines.append(f"cv 0 {fmt(T)} ; {vec(v)} ; {vec(ga)}")
        tmax, knots = T, [0.0, T]
    elif kind < 0.45 and K == 3:
        T = rng.choice([1.0, rng.uniform(0.3, 3.0)])
        ga, gb = rand_elem(rng, g), None
        # end pose within the injectivity radius of the start: ga * small motion is produced by the harness? no: give gb directly
        gb = rand_elem(rng, g) if g in (0, 1) else ga
        if g not in (0, 1):
            gb = rand_elem(rng, g)
        lines.append(f"cubic 0 {fmt(T)} ; {vec(gb)} ; {vec(rand_tan(rng, g, 0.5))} ; {vec(rand_tan(rng, g, 0.5))} ; {vec(ga)}")
        tmax, knots = T, [0.0, T]
    else:
        tmax = seg(0, rng.random() < 0.5)
        knots = [0.0, tmax]
    lines += evals(0)
    for _ in range(n_ops):
        r = rng.random()
        if r < 0.45 and len(knots) < 9:
            # most appended pieces start at the identity (concat_local stays continuous); the others make y jump by
            # x2(0) at the junction, which the property also determines: y(t) = x1(t1) * x2(t - t1)
            T = seg(1, rng.random() < 0.65)
            lines.append("catl 0 1")
            tmax += T
            knots.append(tmax)
        elif r < 0.55 and len(knots) < 9:
            T = seg(1, False)
            lines.append("catg 0 1")  # may jump; crop boundaries below never sit exactly on this junction
            jump = tmax
            tmax += T
            knots.append(tmax)
            lines += evals(0)
            # crops that do not touch the jump
            ta = rng.uniform(0, jump * 0.9)
            tb = rng.uniform(jump * 1.05 + 1e-3, tmax)
            lines.append(f"crop 0 0 {fmt(ta)} ; {fmt(tb)} ; {rng.choice([0, 1])}")
            knots = [0.0] + [k - ta for k in knots if ta < k < tb] + [tb - ta]
            tmax = tb - ta
        else:
            # crop: on a knot / in a later segment / generic / beyond the ends
            c = rng.random()
            inner = knots[1:-1]
            if c < 0.3 and inner:
                ta = rng.choice(inner)
            elif c < 0.4:
                ta = -0.5
            else:
                ta = rng.uniform(0, tmax * 0.8)
            c = rng.random()
            cand = [k for k in inner if k > max(ta, 0)]
            if c < 0.25 and cand:
                tb = rng.choice(cand)
            elif c < 0.35:
                tb = tmax + 1.0
            else:
                tb = rng.uniform(max(ta, 0) + 0.05 * tmax + 1e-3, tmax)
            loc = rng.choice([0, 1])
            lines.append(f"crop 0 0 {fmt(ta)} ; {fmt(tb)} ; {loc}")
            a, b = max(ta, 0.0), min(tb, tmax)
            knots = [0.0] + [k - a for k in knots if a < k < b] + [b - a]
            tmax = b - a
        lines += evals(0)
    if rng.random() < 0.3:
        # beyond the listed properties: make_local() as the last mutator (recorded and compared with the model of the
        # code; what the curve should be afterwards is not stated by C12, so later evaluations are not judged)
        lines.append("mklocal 0")
        lines += evals(0)
    return lines


# ----------------------------------------------------------------------------- check

def run_prog(exe, lines, path_base):
    prog = path_base + ".prog"
    with open(prog, "w") as fh:
        fh.write("\n".join(lines) + "\n")
    out = path_base + ".ndjson"
    r = subprocess.run([exe, "--prog", prog, "--out", out], capture_output=True, text=True, timeout=300)
    if r.returncode != 0:
        raise V.ToolFailure(f"spline harness failed rc={r.returncode}: {r.stderr[-800:]}")
    return out


def split_at_resets(path, per_chunk):
    """split a trace into chunks of `per_chunk` whole programs (a program starts with a reset event)"""
    lines = open(path).read().splitlines()
    starts = [i for i, ln in enumerate(lines) if '"op":"reset"' in ln] or [0]
    chunks = []
    for c in range(0, len(starts), per_chunk):
        a = starts[c]
        b = starts[c + per_chunk] if c + per_chunk < len(starts) else len(lines)
        p = f"{path}.{c:04d}"
        with open(p, "w") as fh:
            fh.write("\n".join(lines[a:b]) + "\n")
        chunks.append((p, a))
    return chunks, lines


def validate(oc, traces, workdir, timeout=1500, per_chunk=2):
    """traces: list of (trace_path, meta). Programs are independent (each starts with reset): validated in chunks."""
    work = []
    for path, meta in traces:
        chunks, lines = split_at_resets(path, per_chunk)
        for cp, first in chunks:
            work.append((cp, first, meta, lines))
    work.sort(key=lambda w: -os.path.getsize(w[0]))

    def one(w):
        cp, first, meta, lines = w
        v, r = V.validate_chunk("TraceSpline", "TraceSpline.cfg", cp, workdir, timeout)
        return w, v, r
    with cf.ThreadPoolExecutor(V.NCPU) as ex:
        for (cp, first, meta, lines), v, r in ex.map(one, work):
            oc.states += r["distinct"]
            oc.transitions += max(r["states"] - 1, 0)
            oc.traces += 1
            oc.events += v["lines"]
            oc.add_cov(v.get("cov") or {})
            for b in v["bad"]:
                if b["clause"].startswith("TOOL."):
                    raise V.ToolFailure(f"tool-level problem in {cp}: {b}")
                ev = json.loads(lines[first + b["line"] - 1])
                b2 = dict(b)
                b2["line"] = first + b["line"]
                b2["g"], b2["K"] = ev.get("g"), ev.get("K")
                payload = dict(meta)
                payload["line"] = first + b["line"]
                payload["event"] = {k: V.dequad(x) for k, x in ev.items()}
                oc.bad_step(b2, payload)


def check(prop, tier, seed, replay=None):
    oc = V.Outcome(prop, tier, seed)
    workdir = os.path.join(V.BUILD, "work", f"{prop}_{os.getpid()}")
    os.makedirs(workdir, exist_ok=True)
    rng = random.Random(seed * 7919 + 17)
    traces = []
    model_info = []
    if replay:
        rp = json.load(open(replay))
        if "prog" not in rp:
            raise V.ToolFailure("this replay file carries no program (model-level finding): see its tlc_tail")
        exe = exe_for(rp["K"], rp["g"])
        out = run_prog(exe, rp["prog"], os.path.join(workdir, "replay"))
        traces.append((out, {"family": "spline", "K": rp["K"], "g": rp["g"], "prog": rp["prog"]}))
        oc.known = {"open": [], "fixed": []}
    else:
        quick = tier == "quick"
        model_info = run_models(oc, tier, workdir)
        # (B1) TLC behaviours replayed on Spline<K,double>
        nbeh = 0
        for K in (1, 2, 3):
            hists, r, viol = simulate_behaviours(K, 8 if quick else 60, 3 if quick else 5, seed + K, workdir, light=quick)
            if viol:
                oc.bad_step({"clause": "C12.model.refinement", "op": "simulate", "stratum": f"K{K}", "err": "invariant violated in simulation", "tol": "exact"},
                            {"family": "spline", "tlc_tail": r["out"][-3000:]})
            oc.states += r["distinct"]
            uniq = {}
            for h in hists:
                uniq[json.dumps(h)] = h
            hs = list(uniq.values())
            rng.shuffle(hs)
            # prefer behaviours that contain crops, but keep every kind of step in the sample: an appended piece that
            # does not start at the identity (concat_local / concat_global), localised and global crops
            def kinds(h):
                ks = set()
                for st_ in h[1:]:
                    if st_[0] in ("catl", "catg"):
                        ks.add((st_[0], st_[3][0] != 0))
                    elif st_[0] == "crop":
                        ks.add(("crop", bool(st_[3])))
                return ks
            hs.sort(key=lambda h: -sum(1 for s in h if s[0] == "crop"))
            limit = 15 if quick else 600
            chosen, seen = [], set()
            for h in hs:                       # first one behaviour per not yet seen kind of step
                if kinds(h) - seen:
                    chosen.append(h)
                    seen |= kinds(h)
            for h in hs:
                if len(chosen) >= limit:
                    break
                if h not in chosen:
                    chosen.append(h)
            hs = chosen
            for need_kind in (("catl", True), ("catl", False), ("catg", True), ("crop", True), ("crop", False)):
                if need_kind not in seen:
                    raise V.ToolFailure(f"no TLC behaviour with a step of kind {need_kind} was generated (K={K})")
            if not hs:
                raise V.ToolFailure("no behaviours were generated by TLC simulation")
            exe = exe_for(K, 0)
            nper = 5 if quick else 40
            for i in range(0, len(hs), nper):
                lines = []
                for h in hs[i:i + nper]:
                    lines += hist_to_program(h, K)
                out = run_prog(exe, lines, os.path.join(workdir, f"beh_K{K}_{i}"))
                traces.append((out, {"family": "spline", "K": K, "g": 0, "source": "TLC behaviour", "prog": lines}))
            nbeh += len(hs)
            if hs:
                oc.samples.append({"tlc_behaviour_K%d" % K: hs[0]})
        # (B2) random programs on other groups
        combos = [(K, g) for g in (1, 2, 3, 4) for K in ((1, 3, 5) if quick else (1, 2, 3, 4, 5))] + [(4, 0), (5, 0)]
        exes = V.build_many([("spline.cpp", [f"VH_K={K}", f"VH_GROUP={g}"]) for K, g in combos])
        nprog = 4 if quick else 60
        for (K, g), exe in zip(combos, exes):
            lines = []
            for _ in range(nprog):
                lines += random_program(rng, K, g, rng.randint(1, 3 if quick else 5))
            out = run_prog(exe, lines, os.path.join(workdir, f"rnd_K{K}_g{g}"))
            traces.append((out, {"family": "spline", "K": K, "g": g, "source": "random program", "prog": lines}))
        oc.extra["behaviours_replayed"] = nbeh
    validate(oc, traces, workdir)
    oc.extra["design_models"] = model_info
    rule = ("states/transitions: TLC's counts over the SplineModel runs (all histories in scope) plus the trace-validation runs; "
            "one evaluation = one recorded Spline call validated against the model; cells = op|node kind of the abstract curve")
    rc = oc.finish("model_checking", rule, ASSUME,
                   extra_cov={"checker_cmd": "TLC on SplineModel.tla (BFS + simulate) and TraceSpline.tla"})
    shutil.rmtree(workdir, ignore_errors=True)
    return rc
