#!/bin/bash
# usage: keep_seed.sh <PROP> <worktree> <check-result-text>
# re-verifies a seeded change in its scratch worktree (tests pass with it, demo fails with it and passes without)
# and stores it under /verif/seeded/<PROP>[-n]/
set -u
P=$1; WT=$2; RES=$3
OUT=/verif/seeded/$P; n=1; while [ -e "$OUT" ]; do n=$((n+1)); OUT=/verif/seeded/$P-$n; done
cd $WT || exit 2
git diff -- include > /tmp/keep_$P.diff
[ -s /tmp/keep_$P.diff ] || { echo "no change in worktree"; exit 2; }
# tests with the change
(cmake --build _build -j4 > /tmp/keep_$P.build.log 2>&1 && ctest --test-dir _build -j4 --timeout 900 > /tmp/keep_$P.ctest.log 2>&1); trc=$?
tests=$(grep "tests passed" /tmp/keep_$P.ctest.log | head -1)
# demo with and without the change
mkdir -p /tmp/keep_$P.pristine && rm -rf /tmp/keep_$P.pristine/* && cp -r include /tmp/keep_$P.pristine/ && (cd /tmp/keep_$P.pristine && patch -R -p1 -s < /tmp/keep_$P.diff)
mkdir -p /tmp/keep_$P.pristine/_build && cp -r _build/include /tmp/keep_$P.pristine/_build/
cd seed_out
g++ -std=gnu++20 -O2 -I$WT/include -I$WT/_build/include -isystem /usr/include/eigen3 demo.cpp -o /tmp/keep_$P.demo_mod 2>/tmp/keep_$P.demo.log; /tmp/keep_$P.demo_mod > /tmp/keep_$P.mod.out 2>&1; mod=$?
g++ -std=gnu++20 -O2 -I/tmp/keep_$P.pristine/include -I/tmp/keep_$P.pristine/_build/include -isystem /usr/include/eigen3 demo.cpp -o /tmp/keep_$P.demo_pri 2>>/tmp/keep_$P.demo.log; /tmp/keep_$P.demo_pri > /tmp/keep_$P.pri.out 2>&1; pri=$?
echo "$P: ctest rc=$trc ($tests) demo modified exit=$mod pristine exit=$pri"
if [ $trc -eq 0 ] && [ $mod -ne 0 ] && [ $pri -eq 0 ]; then
  mkdir -p $OUT && cp /tmp/keep_$P.diff $OUT/patch.diff && cp demo.cpp build.sh $OUT/ 2>/dev/null
  python3 - "$P" "$OUT" "$RES" "$tests" "$mod" "$pri" <<'PY'
import json,sys
p,out,res,tests,mod,pri=sys.argv[1:7]
m=json.load(open('meta.json'))
meta={"property":p,"breaks":m.get("what"),"file":m.get("file"),"needs_to_manifest":m.get("needs"),
      "confirmed":{"existing_tests_with_change":tests.strip(),"demo_exit_with_change":int(mod),"demo_exit_without_change":int(pri),
                   "how":"cmake --build + ctest in the scratch worktree with the change applied; demo.cpp compiled against the changed headers and against the same headers with patch.diff reverted"},
      "check_result":res,"base_commit":"see patch (applies to /repo at the commit recorded in DESIGN.md 10.4)"}
json.dump(meta,open(out+'/meta.json','w'),indent=1)
PY
  echo "kept in $OUT"
else
  echo "NOT kept"; tail -3 /tmp/keep_$P.demo.log
fi
rm -rf /tmp/keep_$P.pristine /tmp/keep_$P.demo_mod /tmp/keep_$P.demo_pri
