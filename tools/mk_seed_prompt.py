#!/usr/bin/env python3
"""Prepares a scratch worktree of /repo and the instruction file for a seeding sub-agent (round r).
The agent sees the text of ONE property, its own worktree, and (from round 2 on) one sentence per earlier seed of the
same property so that it picks a different place - nothing from /verif.  usage: mk_seed_prompt.py PROP ROUND"""
import glob, json, os, subprocess, sys
P, R = sys.argv[1], int(sys.argv[2])
wt = f"/tmp/seed{R}_{P}"
subprocess.run(["git", "-C", "/repo", "worktree", "add", "--detach", wt, "HEAD"], capture_output=True)
prop = [json.loads(l) for l in open("/verif/properties.jsonl")]
p = [x for x in prop if x["id"] == P][0]
earlier = []
for d in sorted(glob.glob(f"/verif/seeded/{P}*")):
    m = json.load(open(os.path.join(d, "meta.json")))
    earlier.append(f"- {m.get('file')}: {m.get('breaks')}")
avoid = ""
if earlier:
    avoid = ("\nOther developers have already tried the following changes for this property; choose a DIFFERENT function / mechanism / "
             "part of the statement (ideally a different file and a different clause of the property):\n" + "\n".join(earlier) + "\n")
hint = ""
if P == "C18":
    hint = " For this property also: a memoised value, a static or thread-unsafe scratch buffer, a mutable member used as workspace, a lazily initialised table without proper guarding."
t = f"""You are a careful C++ engineer asked to play the role of a developer who makes a plausible mistake. You work ONLY inside your own scratch git worktree of the library pettni/smooth (a header-only C++20 Lie group library) at {wt}. Do not read or write anything under /verif or /repo, and do not look for any verification tooling on this machine; everything you need is in your worktree. No network.

The property that must be BROKEN by your change (this is all you know about what will be checked):

{P}: {p['title']}
{p['statement']}
Quantifier: {p['quantifier']['text']}
{avoid}
Task: make ONE small, realistic change to the library sources under {wt}/include (the kind of bug a maintainer could introduce in a refactoring or an "optimisation": an off-by-one, a wrong sign in a rarely taken branch, a dropped term, a swapped index, a wrong constant in a series tail, a condition that is wrong only on a boundary...{hint}) such that
 (1) the library still compiles,
 (2) the repository's existing test suite still passes completely (build and run it: `cmake -G Ninja -S {wt} -B {wt}/_build -DCMAKE_BUILD_TYPE=Release -DBUILD_TESTS=ON >/dev/null && cmake --build {wt}/_build -j4 && ctest --test-dir {wt}/_build -j4 --timeout 900`; the first build takes several minutes),
 (3) the property above is violated for SOME input / sequence of operations, but only under specific circumstances - a particular region of inputs (e.g. only for small angles, only near a half turn, only for large translations, only for one group type or one Bundle composition, only for float), a particular multi-step sequence of operations, an unusual argument, or two cooperating sites that each look fine alone - NOT something that ordinary use or the existing tests would expose at once.
Prefer subtle over blatant: the violation should exceed the tolerance stated in the property clearly (at least 10x), but only in the region you chose.

Deliverables, all inside {wt}/seed_out/ (create it):
 - patch.diff : `git -C {wt} diff -- include` of your change (must apply with `git apply` to the commit your worktree is at).
 - demo.cpp + build.sh : a small standalone program (uses only the library headers + Eigen, compiled with `g++ -std=gnu++20 -O2 -pthread -I{wt}/include -I{wt}/_build/include -isystem /usr/include/eigen3`) that exits 0 on the unmodified library and exits 1 (printing what went wrong) with your change applied. The demo must judge by an independent criterion (e.g. long double / series reference, matrix identities), not by comparing the library with itself in a way your change also affects. build.sh takes the include root as $1.
 - meta.json : {{"property": "{P}", "file": "<changed file>", "what": "<one sentence>", "needs": "<what is needed for the violation to manifest>", "tests_pass": true/false, "demo_unmodified_exit": 0, "demo_modified_exit": 1}}
Verify all three points yourself (run the test suite WITH your change; run the demo against both the modified and a pristine copy of the headers: `git -C {wt} diff > p; git -C {wt} checkout -- include; ...; git -C {wt} apply p`). Leave the worktree with your change applied and seed_out filled. Do not commit. Keep every single shell command under 15 minutes (the machine is shared; run the build in the background with nohup and poll if needed). Final report: at most 150 words.
"""
open(f"/tmp/seed{R}_{P}.prompt.txt", "w").write(t)
print(wt)
