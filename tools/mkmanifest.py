#!/usr/bin/env python3
"""Regenerates MANIFEST.json from the table below (single source of truth for the interface file)."""
import json, os, subprocess
HERE = os.path.dirname(os.path.dirname(os.path.abspath(__file__)))
ids = [json.loads(l)["id"] for l in open(os.path.join(HERE, "properties.jsonl"))]

TRACE_NOTE = ("Trusted: TLC/SANY, the JVM, the BigRat/RFun Java overrides (differentially tested against their plain TLA+ definitions), "
              "the harness's recording code, g++. Inputs are stratified samples re-classified by the spec, not all inputs; "
              "compile-time families are instantiated for a finite list.")
CHECKS = {
 "C01": dict(design="5/C01", technique="TLC trace validation against an exact-rational TLA+ reference semantics (matrix product / inverse of the documented group matrices)",
   text="Every recorded compose/inverse/identity/action/matrix call of the real library is validated by TLC against the matrix group defined in spec/Groups.tla over exact rationals (tolerance 1e-12/1e-5 as stated); strata cover identity, near-identity, generic and half-turn elements, translations up to 1e3, 11-16 group types incl. Bundles, float and double."),
 "C02": dict(design="5/C02", technique="TLC trace validation; exp oracle = certified scaling-and-squaring Taylor series of hat(a) in exact rationals, log checked relationally",
   text="exp/log calls are validated against ExpM(GHat(a)) (certified abs. error 2^-128) for rotation norms 0..50 incl. a log-uniform sweep across the small-angle switch and both sides of pi; log range and both round trips are checked with the property's tolerances and pi band."),
 "C03": dict(design="5/C03", technique="TLC trace validation; Ad/ad/bracket derived from the documented hat/matrix forms by matrix algebra in exact rationals",
   text="hat, vee, Ad, ad, lie_bracket and their consequences (homomorphism, Ad(exp)=exp(ad), antisymmetry, Jacobi) are validated on recorded calls against vee(M hat(e_i) M^-1) and commutators computed in the specification."),
 "C04": dict(design="5/C04", technique="TLC trace validation; Jacobian oracle = power series Phi1(-ad a) with certified error, inverses by exact linear algebra",
   text="dr_exp, dl_exp, dr_expinv, dl_expinv, dr_rminus, dr_rminus_squarednorm and dr_action are validated against the series sum (-1)^k ad^k/(k+1)! and matrix identities in exact rationals, over all theta strata and a log sweep, translations to 1e3."),
 "C05": dict(design="5/C05", technique="TLC trace validation; Hessian oracle = Frechet derivative of Phi1 via the block-triangular identity, stacked layout defined in the spec",
   text="d2r_exp, d2r_expinv, d2l_exp, d2l_expinv, d2r_rminus, d2r_rminus_squarednorm are validated against directional derivatives of Phi1(-ad a) computed by certified series in the documented stacked layout (tolerance 1e-5 of the largest entry)."),
 "C12": dict(design="5/C12", technique="TLC model checking of a refinement (implementation-shaped spline model vs curve algebra) + replay of TLC behaviours into the real Spline with state comparison through a probe hook + trace validation",
   text="spec/SplineModel.tla models the five per-segment vectors and find_idx/operator()/concat_local/concat_global/crop as coded next to the denotational curve algebra of the property; TLC checks the refinement (value, velocity, acceleration at every grid time incl. knots and out of range, t_max) for every history in scope, and rejects the upstream crop arithmetic kept as a spec mutant. TLC-simulated behaviours are replayed on real Spline<K,double> objects and spec/TraceSpline.tla compares the logged representation (SplineProbe hook) with the model state after every action; random programs on R^2/SO3/SE2/SE3, K=1..5 (segments, ConstantVelocity, FixedCubic, +=, concat_global, crops on knots / in later segments / beyond the ends) are validated against the abstract curve in matrix space.",
   note="Design model: G = R, K <= 3, bounded piece library and history length (evidence lists constants and TLC state counts). Group-valued programs are samples. Crop boundaries on a value jump are skipped (undetermined by the property). arclength is judged by an exact sign analysis of the stated bound with a sqrt enclosure. Trusted: TLC, JVM, BigRat/RFun overrides, the guarded SplineProbe friend declaration, recording code."),
 "C06": dict(design="5/C06", technique="TLC trace validation: bundle results against the tuple / block-diagonal / stacked-Hessian arrangement of the same operation on part<i>() defined in the spec; vectors and scalars against the additive group exactly",
   text="For 8 Bundle compositions (order, repetition, nesting, commutative-only, with Galilei / SE_K_3 members) every operation, Jacobian and Hessian of the bundle is recorded next to the same operation on each part<i>() and TLC checks the tuple / block-diagonal / stacked layout (off-block entries exactly zero); fixed-size vectors, dynamic vectors of size 0..6 and scalars are checked to be the additive group exactly (sum to one rounding, identity maps, I and 0 matrices, dof = size). The spec's own direct-product semantics of Bundles (spec/Groups.tla) is additionally exercised by C01-C05 on the same Bundle types.",
   note="Finite list of Bundle instantiations (compile-time family); operands are stratified samples. Trusted: TLC, JVM, BigRat override, recording code."),
 "C15": dict(design="5/C15", technique="abstract machine in TLA+ carrying the exact value of every register through TLC-generated operation programs (trace validation of every produced element)",
   text="TLC (-simulate on spec/MachineGen.tla) generates operation programs over a register file; the harness replays them, long homogeneous chains (1e3 quick / 1e5 thorough operations), one-operation programs in the decades above the small-angle switch and over several turns, lifts SO2->SO3 / SE2->SE3 with projection back (incl. a band next to the half turn) and fixed-step boost::odeint integrations (euler, rk4, cash-karp54, dopri5, fehlberg78) on the real library; spec/TraceMachine.tla applies the same operations to exact rational matrices and checks finite, unit constraint (n+1)1e-14, canonical SO3 sign and accuracy (n+1)1e-13 for every produced element, with n the tracked history length.",
   note="Double precision only (the statement's bounds). Programs, chains and steppers are samples of all histories; history length is tracked per register as defined in the evidence assumptions. Trusted: TLC, JVM, BigRat/RFun overrides, recording code, boost::odeint."),
 "C17": dict(design="5/C17", technique="TLC trace validation of relational events (SE_K_3<1>/SE3, SE_K_3<2>/Galilei, lifts, C1 factorisation, rot_x/y/z, conversions, angle ranges) against documented matrix forms, certified exp and a pi enclosure",
   text="Every relation of the property is recorded as an event on stratified elements/tangents incl. the atan2 cuts and both signs of zero and decided by TLC in exact arithmetic: operation-by-operation equality of SE_K_3<1> with SE3 and of SE_K_3<2> with zero-time Galilei (row/column deletion), lifts as matrix embeddings and homomorphisms inverted by the projections, C1 = scaling * so2, rot_i(t) = ExpM(t hat e_i), quaternion/complex/isometry/Euler round trips with normalisation and canonical sign, and angle()/angle_cw()/angle_ccw() congruent mod 2 pi (sin/cos by series) within their ranges (60-digit pi enclosure, 4 ulp slack).",
   note="Stratified samples of elements; float and double. Trusted: TLC, JVM, BigRat/RFun overrides, recording code."),
}
CHECKS.pop(None, None)
import glob
for _f in sorted(glob.glob(os.path.join(HERE, 'tools', 'manifest_entries', '*.json'))):
    CHECKS[os.path.basename(_f)[:-5]] = json.load(open(_f))
NA_DEFAULT = "check not built yet (work in progress, see DESIGN.md section 9)"

m = {"version": 1, "setup_cmd": "./tools/setup.sh",
     "hooks": {"guard": "SMOOTH_VERIF", "enable": "harnesses compile /repo/include with -DSMOOTH_VERIF",
               "baseline_off_cmd": "./tools/baseline_off.sh", "source_commits": [], "add_only": True},
     "engines": [{"name": "tlc-trace-validation", "path": "tools/verif.py", "serves_properties": sorted(CHECKS),
                  "kind_free_text": "TLA+ specification (spec/*.tla) checked by TLC; C++ harnesses record the real library's behaviour; TLC validates every recorded step / replays model behaviours"}],
     "checks": [], "not_applicable": [], "notes": "see DESIGN.md and tools/FRAMEWORK.md"}
hooks_file = os.path.join(HERE, "tools", "hook_commits.txt")
if os.path.exists(hooks_file):
    m["hooks"]["source_commits"] = [l.strip() for l in open(hooks_file) if l.strip()]
for i in ids:
    if i in CHECKS:
        c = CHECKS[i]
        m["checks"].append({"property_id": i, "quick_cmd": f"./check {i} --tier quick", "thorough_cmd": f"./check {i} --tier thorough",
                            "evidence_file": f"evidence/{i}.json", "replay_cmd_template": f"./check {i} --replay {{path}}",
                            "engine": "tlc-trace-validation",
                            "level_claimed": {"category": "model_checking", "text": c["text"], "design_ref": c["design"]},
                            "level_note": c.get("note", TRACE_NOTE), "technique": c["technique"]})
    else:
        m["not_applicable"].append({"property_id": i, "reason": NA_DEFAULT})
json.dump(m, open(os.path.join(HERE, "MANIFEST.json"), "w"), indent=1)
print("checks:", [c["property_id"] for c in m["checks"]])
