#!/usr/bin/env python3
"""Observation (not a verdict): lp2d::solve of the real library against the exact definition in spec/LP2D.tla.
 1. design model: TLC explores every program over the coefficient box of spec/LP2D.cfg row by row and checks the laws
    every LP satisfies (classification total, first-order optimality, unbounded ray, adding a row never helps);
 2. conformance: harness/lp2d.cpp records the library's answer on every program with <= 2 rows over -1..1 (x 8 objectives)
    and on seeded random programs; spec/TraceLP2D.tla decides status / feasibility / optimal value exactly.
Returns a dict for the evidence file; used by fam_fit (C14) and runnable on its own: tools/obs_lp2d.py [n] [seed]"""
import concurrent.futures as cf
import collections
import json
import os
import shutil
import subprocess
import sys

sys.path.insert(0, os.path.dirname(os.path.abspath(__file__)))
import verif as V


def observe(n=1500, seed=1, design=True, jobs=None):
    jobs = jobs or max(2, V.NCPU // 2)
    workdir = os.path.join(V.BUILD, "work", f"lp2d_{os.getpid()}")
    os.makedirs(workdir, exist_ok=True)
    out = {"what": "lp2d::solve vs spec/LP2D.tla (observation; no listed property states the contract of lp2d::solve)"}
    try:
        if design:
            r = V.run_tlc("LP2D", "LP2D.cfg", workdir, timeout=900, workers=4)
            out["design_model"] = {"module": "LP2D", "cfg": "LP2D.cfg (coefficients -1..1, <= 3 rows, 8 objectives)",
                                   "distinct_states": r["distinct"], "rc": r["rc"],
                                   "laws": ["TypeOK", "OptimalHasWitness", "NoBetterNeighbour", "UnboundedHasRay", "Monotone",
                                            "SlackRowIrrelevant"], "holds": r["rc"] == 0}
        exe = V.build_one("lp2d.cpp", [])
        tr = os.path.join(workdir, "lp2d.ndjson")
        rr = subprocess.run([exe, "--n", str(n), "--wide", str(n), "--seed", str(seed), "--box", "1", "--out", tr], capture_output=True, text=True, timeout=900)
        if rr.returncode != 0:
            out["harness_rc"] = rr.returncode
        chunks, lines = V.split_trace(tr, 1200)
        cov, bad = collections.Counter(), collections.Counter()
        examples = {}
        with cf.ThreadPoolExecutor(jobs) as ex:
            futs = {ex.submit(V.validate_chunk, "TraceLP2D", "TraceLP2D.cfg", cp, workdir, 900): (cp, first) for cp, first in chunks}
            for f in cf.as_completed(futs):
                cp, first = futs[f]
                v, _ = f.result()
                cov.update(v.get("cov") or {})
                for b in v["bad"]:
                    k = f"{b['clause']}|{b['stratum']}"
                    bad[k] += 1
                    if k not in examples:
                        e = json.loads(lines[first + b["line"] - 1])
                        examples[k] = {"cx": e["cx"], "cy": e["cy"], "rows": e["rows"], "returned": e["st"],
                                       "x": V.dequad(e["x"]), "y": V.dequad(e["y"]), "spec": b.get("tol"), "err": b.get("err")}
        out["programs"] = sum(cov.values())
        out["cells"] = dict(sorted(cov.items()))
        out["differs"] = dict(sorted(bad.items()))
        out["examples"] = {k: examples[k] for k in sorted(examples)}
        out["programs_with_a_difference"] = sum(bad.values())
    finally:
        shutil.rmtree(workdir, ignore_errors=True)
    return out


if __name__ == "__main__":
    n = int(sys.argv[1]) if len(sys.argv) > 1 else 1500
    seed = int(sys.argv[2]) if len(sys.argv) > 2 else 1
    print(json.dumps(observe(n, seed), indent=1, default=str))
