"""property id -> check function(prop, tier, seed, replay)"""
import fam_lie

CHECKS = {}
for _p in ("C01", "C02", "C03", "C04", "C05"):
    CHECKS[_p] = fam_lie.check
