"""property id -> check function(prop, tier, seed, replay)"""
import glob
import importlib
import os

import fam_lie

CHECKS = {}
for _p in ("C01", "C02", "C03", "C04", "C05", "C06"):
    CHECKS[_p] = fam_lie.check

# families contributed as tools/registry_<family>.txt lines: "<PROP> <module>.<function>"
for _f in sorted(glob.glob(os.path.join(os.path.dirname(os.path.abspath(__file__)), "registry_*.txt"))):
    for _ln in open(_f):
        _ln = _ln.split("#")[0].strip()
        if not _ln:
            continue
        _prop, _target = _ln.split()
        _mod, _fn = _target.rsplit(".", 1)
        CHECKS[_prop] = getattr(importlib.import_module(_mod), _fn)
