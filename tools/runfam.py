#!/usr/bin/env python3
"""Run a family module's check before it is registered:  python3 tools/runfam.py fam_x C20 quick [replay.json]"""
import os, sys, traceback
sys.path.insert(0, os.path.dirname(os.path.abspath(__file__)))
import importlib
import verif as V
mod, prop, tier = sys.argv[1], sys.argv[2], sys.argv[3]
replay = sys.argv[4] if len(sys.argv) > 4 else None
try:
    V.ensure_setup()
    rc = importlib.import_module(mod).check(prop, tier, int(os.environ.get("VERIF_SEED", "1")), replay)
except V.ToolFailure as e:
    print(f"TOOL-FAILURE property={prop}: {e}", file=sys.stderr); rc = 2
except Exception:
    traceback.print_exc(); rc = 2
sys.exit(rc)
