#!/usr/bin/env python3
"""Generator of SelfTestBigRat.tla (run once; the generated module is the deliverable).

Every case is a TLA+ expression over the BigRat operators together with the value an
independent oracle (python fractions.Fraction, written from the operator descriptions, not
from BigRat.java) assigns to it.  Expected rationals are emitted as literal <<s, N, D>> tuples
in lowest terms (base-2^15 little-endian limbs).
"""
from fractions import Fraction as F
import math, sys

LB = 15
B = 1 << LB


def limbs(n):
    assert n >= 0
    out = []
    while n:
        out.append(n & (B - 1))
        n >>= LB
    return out


def tl(xs):
    return "<<" + ", ".join(str(x) for x in xs) + ">>"


def lit_raw(s, n, d):
    return "<<%d, %s, %s>>" % (s, tl(limbs(n)), tl(limbs(d)))


def lit(q):
    q = F(q)
    s = (q > 0) - (q < 0)
    return lit_raw(s, abs(q.numerator), q.denominator)


def unnorm(q, k=6):
    q = F(q)
    s = (q > 0) - (q < 0)
    return lit_raw(s, abs(q.numerator) * k, q.denominator * k)


def val_lit(v):
    if isinstance(v, bool):
        return "TRUE" if v else "FALSE"
    if isinstance(v, int):
        return str(v)
    if isinstance(v, F):
        return lit(v)
    if isinstance(v, list):
        return "<<" + ", ".join(val_lit(x) for x in v) + ">>"
    raise TypeError(v)


class E:
    def __init__(self, tla, val):
        self.tla, self.val = tla, val


# ---------- constructors ----------
def I(i): return E("RFromInt(%d)" % i, F(i))
def Q(p, q): return E("RDiv(RFromInt(%d), RFromInt(%d))" % (p, q), F(p, q))
def P2(k): return E("RPow2(%d)" % k, F(2) ** k)
def L(q, k=1):
    """literal input tuple denoting q, numerator and denominator scaled by k (un-normalised if k>1)"""
    return E(unnorm(q, k), F(q))
def quad_val(s, hi, lo, e):
    sg = -1 if s < 0 else 1
    return sg * F(hi * (1 << 27) + lo) * F(2) ** e
def quad(s, hi, lo, e): return "<<%d, %d, %d, %d>>" % (s, hi, lo, e)
def Dbl(s, hi, lo, e): return E("RFromDouble(%s)" % quad(s, hi, lo, e), quad_val(s, hi, lo, e))


# ---------- oracle semantics ----------
def floor(q): return q.numerator // q.denominator
def rnd(q, bits):
    sc = F(2) ** bits
    return F(floor(q * sc + F(1, 2))) / sc
def log2floor(q):
    q = abs(q)
    e = q.numerator.bit_length() - q.denominator.bit_length()
    while F(2) ** e > q: e -= 1
    while F(2) ** (e + 1) <= q: e += 1
    return e
def sign(q): return (q > 0) - (q < 0)


def Add(a, b): return E("RAdd(%s, %s)" % (a.tla, b.tla), a.val + b.val)
def Sub(a, b): return E("RSub(%s, %s)" % (a.tla, b.tla), a.val - b.val)
def Mul(a, b): return E("RMul(%s, %s)" % (a.tla, b.tla), a.val * b.val)
def Div(a, b): return E("RDiv(%s, %s)" % (a.tla, b.tla), a.val / b.val)
def Neg(a): return E("RNeg(%s)" % a.tla, -a.val)
def Abs(a): return E("RAbs(%s)" % a.tla, abs(a.val))
def Leq(a, b): return E("RLeq(%s, %s)" % (a.tla, b.tla), a.val <= b.val)
def Lt(a, b): return E("RLt(%s, %s)" % (a.tla, b.tla), a.val < b.val)
def Eq(a, b): return E("REq(%s, %s)" % (a.tla, b.tla), a.val == b.val)
def Sign(a): return E("RSign(%s)" % a.tla, sign(a.val))
def Floor(a): return E("RFloor(%s)" % a.tla, F(floor(a.val)))
def Round(a, bits): return E("RRound(%s, %d)" % (a.tla, bits), rnd(a.val, bits))
def Max(a, b): return E("RMax(%s, %s)" % (a.tla, b.tla), max(a.val, b.val))
def Min(a, b): return E("RMin(%s, %s)" % (a.tla, b.tla), min(a.val, b.val))
def FloorInt(a): return E("RFloorInt(%s)" % a.tla, floor(a.val))
def Log2Floor(a): return E("RLog2Floor(%s)" % a.tla, log2floor(a.val))


def Vec(es): return E("<<" + ", ".join(e.tla for e in es) + ">>", [e.val for e in es])
def Mat(rows): return E("<<" + ", ".join(Vec(r).tla for r in rows) + ">>", [[e.val for e in r] for r in rows])
def IMat(rows): return Mat([[I(x) for x in r] for r in rows])
def QMat(rows): return Mat([[Q(*x) for x in r] for r in rows])
def VecD(qs): return E("RVecFromDoubles(<<%s>>)" % ", ".join(quad(*q) for q in qs), [quad_val(*q) for q in qs])
def MatD(rows):
    return E("RMatFromDoubles(<<%s>>)" % ", ".join("<<%s>>" % ", ".join(quad(*q) for q in r) for r in rows),
             [[quad_val(*q) for q in r] for r in rows])


def dot(u, v):
    assert len(u) == len(v)
    return sum((x * y for x, y in zip(u, v)), F(0))
def mm(a, b):
    k = len(b); m = len(b[0]) if k else 0
    for r in a: assert len(r) == k
    return [[sum((a[i][l] * b[l][j] for l in range(k)), F(0)) for j in range(m)] for i in range(len(a))]
def inv(a):
    n = len(a)
    w = [list(a[i]) + [F(int(i == j)) for j in range(n)] for i in range(n)]
    for c in range(n):
        p = next(r for r in range(c, n) if w[r][c] != 0)
        w[p], w[c] = w[c], w[p]
        piv = w[c][c]
        w[c] = [x / piv for x in w[c]]
        for r in range(n):
            if r != c and w[r][c] != 0:
                f = w[r][c]
                w[r] = [x - f * y for x, y in zip(w[r], w[c])]
    return [row[n:] for row in w]
def det(a):
    n = len(a)
    if n == 0: return F(1)
    return sum(((-1) ** j * a[0][j] * det([r[:j] + r[j + 1:] for r in a[1:]]) for j in range(n)), F(0))


def Dot(u, v): return E("RDot(%s, %s)" % (u.tla, v.tla), dot(u.val, v.val))
def MatMul(a, b): return E("RMatMul(%s, %s)" % (a.tla, b.tla), mm(a.val, b.val))
def MatVec(a, v): return E("RMatVec(%s, %s)" % (a.tla, v.tla), [dot(r, v.val) for r in a.val])
def MatAdd(a, b): return E("RMatAdd(%s, %s)" % (a.tla, b.tla), [[x + y for x, y in zip(r, s)] for r, s in zip(a.val, b.val)])
def MatSub(a, b): return E("RMatSub(%s, %s)" % (a.tla, b.tla), [[x - y for x, y in zip(r, s)] for r, s in zip(a.val, b.val)])
def MatScale(s, a): return E("RMatScale(%s, %s)" % (s.tla, a.tla), [[x * s.val for x in r] for r in a.val])
def MatRound(a, bits): return E("RMatRound(%s, %d)" % (a.tla, bits), [[rnd(x, bits) for x in r] for r in a.val])
def MatMaxAbs(a): return E("RMatMaxAbs(%s)" % a.tla, max([abs(x) for r in a.val for x in r] + [F(0)]))
def VecMaxAbs(v): return E("RVecMaxAbs(%s)" % v.tla, max([abs(x) for x in v.val] + [F(0)]))
def MatNormInf(a): return E("RMatNormInf(%s)" % a.tla, max([sum((abs(x) for x in r), F(0)) for r in a.val] + [F(0)]))
def MatInv(a):
    assert det(a.val) != 0
    return E("RMatInv(%s)" % a.tla, inv(a.val))
def MatSolve(a, b): return E("RMatSolve(%s, %s)" % (a.tla, b.tla), mm(inv(a.val), b.val))


cases = []   # (name, kind, expr)


def case(name, e, kind=None):
    if kind is None:
        kind = "R" if isinstance(e.val, F) else "X"
    cases.append((name, kind, e))


# =====================================================================================
# A. representation anchors
for i in [0, 1, -1, 2, 32767, 32768, -32768, 32769, 65536, 1073741823, 1073741824, 2147483647, -2147483647, 123456789, -987654321]:
    case("FromInt", I(i))
for k in [0, 1, 2, 14, 15, 16, 29, 30, 31, 44, 45, 46, 100, 1023, -1, -2, -14, -15, -16, -30, -31, -45, -100, -1074]:
    case("Pow2", P2(k))

# B. doubles
quads = [(1, 37748736, 0, -52), (-1, 1, 5, -1074), (1, 0, 0, 0), (-1, 0, 0, 5), (0, 0, 0, 0), (1, 0, 1, -1074),
         (1, 67108863, 134217727, 971), (1, 33554432, 0, -52), (-1, 33554432, 1, -60), (1, 0, 134217727, 0),
         (1, 7, 32768, 3), (1, 12345678, 87654321, -30), (-1, 1, 0, 20), (1, 1, 0, 15), (1, 1, 0, 30), (1, 1, 0, -27),
         (-1, 8, 0, -30), (1, 7, 134217727, 0), (1, 8, 0, 0), (1, 0, 32767, 1), (1, 0, 32768, -15), (-1, 67108863, 134217727, -1074),
         (1, 54043195, 70866960, -55), (1, 40265318, 53687091, -56), (-1, 50331648, 0, -51), (1, 33554432, 0, 1), (1, 0, 3, -2)]
for q in quads:
    case("FromDouble", Dbl(*q))
case("VecFromDoubles", VecD(quads[:6]))
case("VecFromDoubles-empty", VecD([]))
case("MatFromDoubles", MatD([quads[0:3], quads[6:9], quads[10:13]]))
case("MatFromDoubles-empty", MatD([]))
case("MatFromDoubles-1x1", MatD([[quads[1]]]))

# C. binary scalar operators on a grid
big1 = F(123456789012345678901234567890123456789, 987654321098765432109876543211)
big2 = -F(2 ** 200 - 1, 3 ** 80)
V = [I(0), I(7), Q(-3, 7), L(F(5, 2), 6), L(-F(22, 7), 32768), Dbl(1, 37748736, 0, -52), Dbl(-1, 1, 5, -1074),
     L(big1), L(big2, 3), Mul(I(2147483647), I(2147483647)), P2(-100), Q(1073741824, 3)]
for a in V:
    for b in V:
        case("Add", Add(a, b))
        case("Sub", Sub(a, b))
        case("Mul", Mul(a, b))
        if b.val != 0:
            case("Div", Div(a, b))
        case("Leq", Leq(a, b))
        case("Lt", Lt(a, b))
        case("Eq", Eq(a, b))
        case("Max", Max(a, b))
        case("Min", Min(a, b))
# equality of differently represented equal values
case("Eq-unnorm", Eq(L(F(5, 2), 6), L(F(5, 2), 32768 * 7)))
case("Eq-unnorm-neg", Eq(L(-F(1, 3), 5), Q(-7, 21)))
case("Lt-close", Lt(L(F(10 ** 30, 10 ** 30 + 1)), L(F(10 ** 30 + 1, 10 ** 30 + 2))))
case("Lt-close-neg", Lt(L(-F(10 ** 30, 10 ** 30 + 1)), L(-F(10 ** 30 + 1, 10 ** 30 + 2))))
case("Leq-close", Leq(L(F(10 ** 30 + 1, 10 ** 30 + 2), 9), L(F(10 ** 30, 10 ** 30 + 1), 4)))

# D. unary operators
U = V + [I(-3), Q(7, 2), Q(-7, 2), Q(1, 3), Q(-1, 3), Q(-1, 1000000), L(F(6, 1), 4), L(-F(6, 1), 4), I(1), I(-1),
         L(F(2 ** 90 - 1, 2 ** 45 + 1)), L(-F(2 ** 90, 2 ** 45 + 1)), L(F(10 ** 40 + 7, 10 ** 18 + 9)),
         L(F(2 ** 200 - 1, 2 ** 77 + 3)), L(F(32768 ** 5 - 1, 32768 ** 2 + 32767)), L(F(32768 ** 6, 32768 ** 3 - 1)),
         L(F(2 ** 150 + 12345, 2 ** 30)), L(-F(3 ** 100, 2 ** 64), 6), L(F(3 ** 100, 32767 * 32768 ** 3 + 5)),
         L(F((2 ** 45 + 1) * (2 ** 60 + 33), 2 ** 45 + 1)), L(F(2 ** 75 - 1, 2 ** 75)), L(-F(2 ** 75 - 1, 2 ** 75)),
         L(F(2 ** 75 + 1, 2 ** 75)), L(F(5 * 32768 ** 4, 32768 ** 2 * 3)), L(F(32768 ** 3 * 16384, 32768 * 16385)),
         L(F(7 ** 60, 5 ** 40), 7 ** 5)]
for a in U:
    case("Neg", Neg(a))
    case("Abs", Abs(a))
    case("Sign", Sign(a))
    case("Floor", Floor(a))
    if a.val != 0:
        case("Log2Floor", Log2Floor(a))
    if abs(floor(a.val)) < 2 ** 31 - 1:
        case("FloorInt", FloorInt(a))
for k in [0, 1, 14, 15, 16, 30, 31, 100, -1, -14, -15, -16, -17, -1074]:
    case("Log2Floor-pow2", Log2Floor(P2(k)))
    case("Log2Floor-pow2-below", Log2Floor(Sub(P2(k), P2(k - 40))))
    case("Log2Floor-pow2-above", Log2Floor(Neg(Add(P2(k), P2(k - 40)))))
case("FloorInt-max", FloorInt(Q(2147483647, 1)))
case("FloorInt-big-den", FloorInt(L(F(3 ** 100 * 1000 + 1, 3 ** 100))))
case("FloorInt-neg-big-den", FloorInt(L(-F(3 ** 100 * 1000 + 1, 3 ** 100))))

# E. rounding
R = [Q(1, 2), Q(-1, 2), Q(3, 2), Q(-3, 2), Q(5, 8), Q(-5, 8), I(12), I(-12), I(4), I(-4), I(0), Q(1, 3), Q(-1, 3), Q(2, 3),
     L(F(5, 2), 6), L(big1), L(big2, 3), Dbl(1, 37748736, 0, -52), Dbl(-1, 1, 5, -1074), Dbl(1, 54043195, 70866960, -55),
     Q(22, 7), Q(-22, 7), P2(-257), Neg(P2(-257)), P2(-256), L(F(3 ** 100, 2 ** 64), 2), I(2147483647), Q(1, 1000000)]
for a in R:
    for bits in [0, 1, 2, 3, 10, 53, 256, -1, -3, -20, -70]:
        case("Round", Round(a, bits))

# F. kernels
u5 = Vec([I(1), Q(-1, 2), L(F(5, 2), 6), I(0), Dbl(1, 37748736, 0, -52)])
v5 = Vec([Q(2, 3), I(4), I(0), L(big1), Q(-8, 9)])
case("Dot-empty", Dot(Vec([]), Vec([])))
case("Dot-1", Dot(Vec([Q(3, 4)]), Vec([Q(-4, 3)])))
case("Dot-5", Dot(u5, v5))
case("Dot-5-self", Dot(v5, v5))
case("Dot-doubles", Dot(VecD(quads[:6]), VecD(quads[6:12])))
case("VecMaxAbs", VecMaxAbs(u5))
case("VecMaxAbs-2", VecMaxAbs(v5))
case("VecMaxAbs-neg", VecMaxAbs(Vec([Q(-7, 2), I(3), Q(10, 3)])))
case("VecMaxAbs-empty", VecMaxAbs(Vec([])))
case("VecMaxAbs-zero", VecMaxAbs(Vec([I(0), I(0)])))

A23 = QMat([[(1, 2), (-2, 3), (3, 1)], [(0, 1), (5, 7), (-1, 9)]])
A32 = QMat([[(1, 1), (2, 5)], [(-3, 4), (0, 1)], [(7, 2), (-1, 3)]])
A33 = IMat([[0, 2, 1], [1, -1, 3], [4, 0, -2]])               # needs a row swap
B33 = QMat([[(1, 1), (1, 2), (1, 3)], [(1, 2), (1, 3), (1, 4)], [(1, 3), (1, 4), (1, 5)]])   # Hilbert
C33 = Mat([[L(F(1, 2), 4), L(F(0), 1), I(3)], [I(0), L(-F(2, 3), 5), I(1)], [I(0), I(0), L(F(7, 1), 3)]])
A44 = IMat([[2, -1, 0, 3], [1, 0, 4, -2], [0, 5, 1, 1], [-3, 2, 2, 0]])
B44 = IMat([[0, 0, 1, 2], [0, 3, 0, 1], [1, 1, 1, 1], [2, 0, -1, 4]])  # zero pivots, swaps
H44 = QMat([[(1, i + j + 1) for j in range(4)] for i in range(4)])
D44 = MatD([[(1, 33554432 + 1000 * (4 * i + j), 12345 * (i + 1), -52 - j) if (i + j) % 3 else (-1, 40265318, 53687091 + i, -56 + i)
             for j in range(4)] for i in range(4)])
D33 = MatD([[quads[0], quads[7], quads[8]], [quads[10], quads[11], quads[12]], [quads[22], quads[23], quads[24]]])
I33 = IMat([[1, 0, 0], [0, 1, 0], [0, 0, 1]])
E0 = Mat([])
x3 = Vec([Q(1, 2), I(-2), Q(3, 7)])
x4 = Vec([I(1), Q(-1, 3), L(F(5, 2), 2), Dbl(1, 37748736, 0, -52)])

case("MatMul-23x32", MatMul(A23, A32))
case("MatMul-32x23", MatMul(A32, A23))
case("MatMul-33", MatMul(A33, B33))
case("MatMul-33-unnorm", MatMul(C33, A33))
case("MatMul-33-id", MatMul(I33, B33))
case("MatMul-44", MatMul(A44, B44))
case("MatMul-44-h", MatMul(H44, A44))
case("MatMul-44-d", MatMul(D44, D44))
case("MatMul-33-d", MatMul(D33, B33))
case("MatMul-empty", MatMul(E0, E0))
case("MatVec-23", MatVec(A23, x3))
case("MatVec-33", MatVec(B33, x3))
case("MatVec-44", MatVec(D44, x4))
case("MatVec-44-h", MatVec(H44, x4))
case("MatVec-empty", MatVec(E0, Vec([])))
case("MatAdd-33", MatAdd(A33, B33))
case("MatAdd-44", MatAdd(D44, H44))
case("MatAdd-23", MatAdd(A23, A23))
case("MatAdd-empty", MatAdd(E0, E0))
case("MatSub-33", MatSub(A33, B33))
case("MatSub-44", MatSub(H44, D44))
case("MatSub-self", MatSub(C33, C33))
case("MatScale-33", MatScale(Q(-3, 7), B33))
case("MatScale-0", MatScale(I(0), A44))
case("MatScale-44", MatScale(Dbl(-1, 1, 5, -1074), D44))
case("MatScale-23", MatScale(L(F(5, 2), 6), A23))
for bits in [0, 3, 60, -1]:
    case("MatRound-33", MatRound(B33, bits))
    case("MatRound-44", MatRound(D44, bits))
case("MatRound-h44-256", MatRound(H44, 256))
case("MatRound-prod", MatRound(MatMul(D44, D44), 53))
for m in [A23, A32, A33, B33, C33, A44, H44, D44, D33, E0]:
    case("MatMaxAbs", MatMaxAbs(m))
    case("MatNormInf", MatNormInf(m))
for name, m in [("1x1", QMat([[(-3, 7)]])), ("2x2", IMat([[1, 2], [3, 4]])), ("2x2-swap", IMat([[0, 1], [1, 0]])),
                ("2x2-q", QMat([[(1, 2), (1, 3)], [(1, 4), (1, 5)]])), ("A33", A33), ("B33", B33), ("C33", C33),
                ("I33", I33), ("D33", D33), ("A44", A44), ("B44", B44), ("H44", H44), ("D44", D44), ("empty", E0)]:
    case("MatInv-" + name, MatInv(m))
    if m.val:
        case("MatInv-" + name + "-check", MatMul(m, MatInv(m)))
case("MatInv-inv", MatInv(MatInv(H44)))
case("MatSolve-33x2", MatSolve(A33, A32))
case("MatSolve-33x1", MatSolve(B33, Mat([[I(1)], [I(2)], [I(3)]])))
case("MatSolve-44x1", MatSolve(A44, Mat([[I(1)], [Q(-1, 2)], [I(0)], [I(5)]])))
case("MatSolve-44x4", MatSolve(B44, H44))
case("MatSolve-44-d", MatSolve(D44, A44))
case("MatSolve-33-unnorm", MatSolve(C33, B33))

# G. identities on large values
bigA, bigB, bigC = L(big1), L(big2, 3), L(F(7 ** 60, 5 ** 40), 7 ** 5)
case("Id-addsub", Sub(Add(bigA, bigB), bigB))
case("Id-muldiv", Div(Mul(bigA, bigB), bigB))
case("Id-distrib-l", Mul(bigA, Add(bigB, bigC)))
case("Id-distrib-r", Add(Mul(bigA, bigB), Mul(bigA, bigC)))
case("Id-div-self", Div(bigB, bigB))
case("Id-sub-self", Sub(bigC, bigC))
case("Id-recip", Div(I(1), Div(I(1), bigA)))
case("Id-horner", Add(Mul(Add(Mul(I(2147483647), P2(31)), I(2147483647)), P2(31)), I(2147483647)))
case("Id-sq", Mul(Sub(bigA, bigB), Add(bigA, bigB)))
case("Id-sq-r", Sub(Mul(bigA, bigA), Mul(bigB, bigB)))
case("Id-pow", Mul(Mul(Mul(Q(3, 32768), Q(3, 32768)), Mul(Q(3, 32768), Q(3, 32768))), Mul(Q(32768, 3), Q(32768, 3))))
case("Id-dyadic-sum", Add(Add(P2(-1074), P2(971)), Neg(P2(971))))
case("Id-floor-round", Sub(Round(bigA, 0), Floor(Add(bigA, Q(1, 2)))))
case("Id-max-min", Add(Max(bigA, bigB), Min(bigA, bigB)))

# G2. long operands (70-140 limbs): carry/borrow chains, long division, Euclid on large inputs
sA = F(3 ** 700 + 1, 7 ** 400); sB = F(5 ** 300, 11 ** 300)
case("Long-add", Add(L(sA), L(sB)))
case("Long-mul-recip", Mul(L(sA), L(7 / sA)))
case("Long-norm", Add(L(sA, 13 ** 200), I(0)))
case("Long-floor", Floor(L(F(2 ** 2100 - 1, 2 ** 1050 + 1) * 3)))
case("Long-carry", Add(L(F(2 ** 2100 - 1)), I(1)))
case("Long-borrow", Sub(L(F(2 ** 2100)), I(1)))
case("Long-cancel", Sub(L(F(2 ** 2100 + 1)), L(F(2 ** 2100))))
case("Long-round", Round(L(sA), 2000))
case("Long-log2", Log2Floor(L(sA)))
case("Long-lt", Lt(L(F(2 ** 2100 + 1, 3)), L(F(2 ** 2100 + 2, 3))))
case("Long-div", Div(L(sA), L(sB)))

# G3. tolerated malformed inputs: leading-zero limbs, sign 0 with a numerator, sign 2
zl = E("<<1, <<5, 0, 0>>, <<2, 0>>>>", F(5, 2))
case("Lenient-add", Add(zl, zl))
case("Lenient-mul", Mul(zl, E("<<-1, <<0, 1, 0>>, <<3>>>>", F(-32768, 3))))
case("Lenient-eq", Eq(zl, Q(5, 2)))
case("Lenient-floor", Floor(zl))
case("Lenient-sign0", Add(E("<<0, <<5>>, <<2>>>>", F(0)), I(1)))
case("Lenient-zeroN", Sign(E("<<1, <<0, 0>>, <<2>>>>", F(0))))
case("Lenient-neg", Neg(zl))

# H. string rendering (reports only; not compared between modes)
for a in [I(0), Q(-1, 3), L(big1), P2(-1074)]:
    cases.append(("ToStr", "S", E("RToStr(%s)" % a.tla, None)))

# =====================================================================================
out = []
w = out.append
w("--------------------------- MODULE SelfTestBigRat ---------------------------")
w("(* GENERATED by gen_selftest.py -- differential self-test of BigRat.                 *)")
w("(* Each case: the actual value, the value an independent oracle (python Fraction)    *)")
w("(* assigns to it as a literal in lowest terms, and (rationals) the same value with   *)")
w("(* numerator and denominator multiplied by 6, compared with REq.                     *)")
w("(* kind R: actual = exp /\\ REq(actual, ref) /\\ well-formed;  kind X: actual = exp;    *)")
w("(* kind S: actual \\in STRING (value not printed).                                    *)")
w("EXTENDS Integers, Sequences, TLC, BigRat")
w("")
w("NCases == %d" % len(cases))
w("")
w("WFNat(x) == /\\ \\A i \\in 1..Len(x) : x[i] \\in 0..32767")
w("            /\\ (Len(x) > 0 => x[Len(x)] # 0)")
w("WFRat(r) == /\\ Len(r) = 3")
w("            /\\ r[1] \\in {-1, 0, 1}")
w("            /\\ WFNat(r[2]) /\\ WFNat(r[3])")
w("            /\\ Len(r[3]) > 0")
w("            /\\ (r[1] = 0 <=> r[2] = <<>>)")
w("")
w("\\* <<name, kind, actual, expected, reference>>")
w("CaseAt(i) ==")
w("  CASE")
for idx, (name, kind, e) in enumerate(cases, 1):
    sep = "   " if idx == 1 else "[] "
    if kind == "R":
        w('  %si = %d -> <<"%s", "R", %s,\n        %s,\n        %s>>' % (sep, idx, name, e.tla, lit(e.val), unnorm(e.val)))
    elif kind == "X":
        w('  %si = %d -> <<"%s", "X", %s,\n        %s, 0>>' % (sep, idx, name, e.tla, val_lit(e.val)))
    else:
        w('  %si = %d -> <<"%s", "S", %s, 0, 0>>' % (sep, idx, name, e.tla))
w("")
w("Check(i) ==")
w("  LET c  == CaseAt(i)")
w("      ok == CASE c[2] = \"R\" -> c[3] = c[4] /\\ WFRat(c[3]) /\\ REq(c[3], c[5]) /\\ REq(c[5], c[3])")
w("                                /\\ ~RLt(c[3], c[5]) /\\ RLeq(c[5], c[3])")
w("              [] c[2] = \"X\" -> c[3] = c[4]")
w("              [] c[2] = \"S\" -> c[3] \\in STRING")
w("  IN  /\\ PrintT(\"CASE \" \\o ToString(i) \\o \" \" \\o c[1] \\o \" \" \\o (IF ok THEN \"ok\" ELSE \"FAIL\") \\o \" \"")
w("               \\o (IF c[2] = \"S\" THEN \"-\" ELSE ToString(c[3])))")
w("      /\\ (ok \\/ PrintT(\"EXPECTED \" \\o ToString(i) \\o \" \" \\o ToString(c[4])))")
w("      /\\ ok")
w("")
w("Failures(z) == {i \\in 1..(NCases + z) : ~Check(i)}")
w("")
w("\\* negative controls: the comparison operators must be able to say FALSE")
w("Controls ==")
w("  /\\ ~REq(RFromInt(1), RFromInt(2))")
w("  /\\ ~REq(<<1, <<1>>, <<3>> >>, <<1, <<0, 0, 1>>, <<1, 0, 3>> >>)")
w("  /\\ ~RLt(RFromInt(2), RFromInt(1))")
w("  /\\ ~RLeq(RFromInt(2), RFromInt(1))")
w("  /\\ ~RLt(RFromInt(1), RFromInt(1))")
w("")
w("VARIABLE x")
w("Init == x = 0")
w("Next == x' = x")
w("Inv ==")
w("  LET f == Failures(x)")
w("  IN  /\\ PrintT(\"SELFTEST cases=\" \\o ToString(NCases) \\o \" failures=\" \\o ToString(f)")
w("               \\o \" controls=\" \\o ToString(Controls))")
w("      /\\ f = {}")
w("      /\\ Controls")
w("=============================================================================")
open("SelfTestBigRat.tla", "w").write("\n".join(out) + "\n")
print("generated", len(cases), "cases")
