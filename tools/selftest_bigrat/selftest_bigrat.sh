#!/bin/sh
# Differential self-test of BigRat: the plain TLA+ definitions (mode a, no BigRat.class) and the
# Java module override (mode b, BigRat.class next to BigRat.tla) evaluate the same cases.
# Each mode must pass every case, and the two modes must print identical values.
# usage: selftest_bigrat.sh [BigRat.java]     (default /verif/spec/BigRat.java)
# exit 0 iff both runs pass and agree.
set -u
HERE=$(cd "$(dirname "$0")" && pwd)
JAVA_SRC=${1:-/verif/spec/BigRat.java}
JAR=${TLA2TOOLS_JAR:-/opt/veriftools/tla/tla2tools.jar}
mkdir -p "$HERE/../../build/tmp"
WORK=$(mktemp -d "$HERE/../../build/tmp/selftest_bigrat.XXXXXX") || exit 2
[ -n "${KEEP:-}" ] || trap 'rm -rf "$WORK"' EXIT INT TERM
rc=0
# the 2063-case test module is generated (python Fraction oracle), not committed
(cd "$WORK" && python3 "$HERE/gen_selftest.py") || exit 2

run_mode() {  # $1 = plain|java
  d="$WORK/$1"
  mkdir -p "$d/tmp" "$d/meta"
  cp "$HERE/../../spec/BigRat.tla" "$WORK/SelfTestBigRat.tla" "$HERE/SelfTestBigRat.cfg" "$d/" || return 2
  if [ "$1" = java ]; then
    cp "$JAVA_SRC" "$d/BigRat.java" || return 2
    (cd "$d" && javac -cp "$JAR" -d . BigRat.java) > "$d/javac.log" 2>&1 || { cat "$d/javac.log"; return 2; }
  fi
  start=$(date +%s)
  (cd "$d" && JAVA_TOOL_OPTIONS="-Djava.io.tmpdir=$d/tmp" timeout 600 tlc -workers 1 -metadir "$d/meta" \
      -config SelfTestBigRat.cfg SelfTestBigRat.tla) > "$d/tlc.log" 2>&1
  st=$?
  end=$(date +%s)
  grep '^"CASE ' "$d/tlc.log" | sort -u > "$d/cases.txt"
  n=$(wc -l < "$d/cases.txt")
  nfail=$(grep -c '^"CASE [0-9]* [^ ]* FAIL' "$d/cases.txt")
  ovr=$(grep -c 'Loading RAdd operator override' "$d/tlc.log")
  summary=$(grep '^"SELFTEST ' "$d/tlc.log" | head -1)
  echo "mode $1: tlc exit=$st, $n cases checked, $nfail failed, override loaded=$ovr, $((end - start)) s"
  echo "  $summary"
  ok=1
  [ "$st" -eq 0 ] || ok=0
  [ "$nfail" -eq 0 ] || ok=0
  [ "$n" -gt 0 ] || ok=0
  echo "$summary" | grep -q 'failures={} controls=TRUE' || ok=0
  grep -q 'Model checking completed. No error has been found' "$d/tlc.log" || ok=0
  if [ "$1" = java ]; then [ "$ovr" -ge 1 ] || { echo "  override NOT active in java mode"; ok=0; }
  else [ "$ovr" -eq 0 ] || { echo "  override unexpectedly active in plain mode"; ok=0; }; fi
  if [ "$ok" -ne 1 ]; then
    echo "mode $1: FAILED"; grep -E 'FAIL|^"EXPECTED|Error|error' "$d/tlc.log" | head -40
    return 1
  fi
  return 0
}

run_mode plain || rc=1
run_mode java || rc=1
if [ -s "$WORK/plain/cases.txt" ] && [ -s "$WORK/java/cases.txt" ]; then
  if cmp -s "$WORK/plain/cases.txt" "$WORK/java/cases.txt"; then
    echo "cross-check: plain and java values identical ($(wc -l < "$WORK/plain/cases.txt") lines)"
  else
    echo "cross-check: plain and java values DIFFER"; diff "$WORK/plain/cases.txt" "$WORK/java/cases.txt" | head -20; rc=1
  fi
else
  rc=1
fi
[ "$rc" -eq 0 ] && echo "selftest_bigrat: PASS" || echo "selftest_bigrat: FAIL"
[ -n "${KEEP:-}" ] && echo "kept $WORK"
exit $rc
