---------------------------- MODULE SelfTestRFun ----------------------------
(* Differential test of the RFun.class kernels against the TLA+ definitions.  *)
EXTENDS Groups, TLC
VARIABLE x
F(p, q) == RFrac(p, q)
A1 == GHat([k |-> "SO3"], <<F(1, 10), F(-2, 10), F(3, 10)>>)
A2 == GHat([k |-> "SE3"], <<F(700, 1), F(-3, 1), F(1, 7), F(31, 10), F(0, 1), F(-1, 100)>>)
A3 == GHat([k |-> "SE2"], <<F(1, 1), F(2, 1), F(1, 100000)>>)
A4 == Xad([k |-> "SE3"], <<F(1, 2), F(-3, 1), F(1, 7), F(1, 10), F(2, 10), F(-1, 100)>>)
A5 == MZero(3, 3)
A6 == GHat([k |-> "Gal"], <<F(1, 1), F(2, 1), F(-3, 1), F(100, 3), F(1, 3), F(1, 4), F(7, 10), F(40, 1), F(2, 10), F(3, 10)>>)
Cases == <<A1, A2, A3, A4, A5, A6>>
Init == x = 1
Next == x <= Len(Cases) /\ x' = x + 1 /\
        PrintT(<<"CASE", x, ExpAt(Cases[x], 96, 30), ExpPhiAt(Cases[x], 120, 34), ExpMErr(Cases[x]), Phi1MErr(Cases[x])>>)
=============================================================================
