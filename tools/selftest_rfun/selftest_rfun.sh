#!/bin/sh
# Differential self-test: RFun.tla's ExpAt / ExpPhiAt evaluated by their TLA+ definitions (no RFun.class)
# and by the Java override must print identical values.  exit 0 iff identical.
set -u
HERE=$(cd "$(dirname "$0")" && pwd)
SPEC=$HERE/../../spec
JAR=/opt/veriftools/tla/tla2tools.jar
mkdir -p "$HERE/../../build/tmp"
WORK=$(mktemp -d "$HERE/../../build/tmp/selftest_rfun.XXXXXX") || exit 2
[ -n "${KEEP:-}" ] || trap 'rm -rf "$WORK"' EXIT INT TERM
for mode in plain java; do
  d=$WORK/$mode; mkdir -p $d/tmp
  cp $SPEC/BigRat.tla $SPEC/RLin.tla $SPEC/RFun.tla $SPEC/Groups.tla $HERE/SelfTestRFun.tla $HERE/SelfTestRFun.cfg $d/
  if [ $mode = java ]; then javac -nowarn -cp $JAR -d $d $SPEC/BigRat.java $SPEC/RFun.java || exit 2
  else javac -nowarn -cp $JAR -d $d $SPEC/BigRat.java || exit 2; fi
  (cd $d && timeout 1200 java -Xss128m -Djava.io.tmpdir=$d/tmp -cp $JAR:/opt/veriftools/tla/CommunityModules-deps.jar tlc2.TLC -workers 1 -metadir $d/meta -config SelfTestRFun.cfg SelfTestRFun.tla) > $d/log 2>&1
  grep -q "No error has been found" $d/log || { echo "mode $mode: TLC failed"; tail -20 $d/log; exit 1; }
  n=$(grep -c "Loading ExpAt operator override" $d/log)
  if [ $mode = java ] && [ $n -lt 1 ]; then echo "override not active"; exit 1; fi
  if [ $mode = plain ] && [ $n -ne 0 ]; then echo "override unexpectedly active"; exit 1; fi
  awk "/\"CASE\"/{p=1} p" $d/log | grep -v "^Model checking\|^  Estimates\|^  calculated\|states generated\|^The depth\|^The average\|^Finished\|^Progress\|^  because" > $d/vals
done
if cmp -s $WORK/plain/vals $WORK/java/vals && [ -s $WORK/plain/vals ]; then
  echo "selftest_rfun: PASS ($(grep -c CASE $WORK/plain/vals) cases, $(wc -c < $WORK/plain/vals) bytes identical)"; exit 0
else echo "selftest_rfun: FAIL"; diff $WORK/plain/vals $WORK/java/vals | head; exit 1; fi
