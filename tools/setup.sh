#!/bin/sh
# Offline setup: compile the TLC module overrides. Nothing is fetched.
set -e
cd "$(dirname "$0")/.."
mkdir -p build/tmp build/tlc
if [ -f spec/BigRat.java ]; then
  javac -nowarn -cp /opt/veriftools/tla/tla2tools.jar -d spec spec/BigRat.java spec/RFun.java
fi
echo setup ok
