#!/opt/veriftools/pyvenv/bin/python3
"""Validates MANIFEST.json and every evidence file against the interface schemas (run with python3-vt)."""
import glob, json, sys
import jsonschema
bad = 0
def v(path, schema):
    global bad
    try:
        jsonschema.validate(json.load(open(path)), json.load(open(schema)))
    except Exception as e:  # noqa
        bad += 1
        print("INVALID", path, str(e).splitlines()[0])
v("MANIFEST.json", "/root/.vp/MANIFEST.schema.json")
for f in sorted(glob.glob("evidence/*.json")):
    v(f, "/root/.vp/EVIDENCE.schema.json")
m = json.load(open("MANIFEST.json"))
ids = [json.loads(l)["id"] for l in open("properties.jsonl")]
claimed = [c["property_id"] for c in m["checks"]]
na = [c["property_id"] for c in m["not_applicable"]]
assert sorted(claimed + na) == sorted(ids), (claimed, na)
print("validated", 1 + len(glob.glob("evidence/*.json")), "files; invalid:", bad)
sys.exit(1 if bad else 0)
