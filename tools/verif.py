#!/usr/bin/env python3
"""Driver of the model-based verification machinery for pettni/smooth (see DESIGN.md).

  ./check <property> [--tier quick|thorough] [--replay <file>]

exit 0: property held on everything explored (known findings are printed as KNOWN-FINDING lines)
exit 1: a violation that known_findings.json does not list (VIOLATION line printed)
exit 2: tool failure (build error, TLC crash, timeout, truncated trace) - never a verdict
"""
import argparse
import concurrent.futures as cf
import fcntl
import hashlib
import json
import os
import re
import shutil
import subprocess
import sys
import time

VERIF = os.path.dirname(os.path.dirname(os.path.abspath(__file__)))
REPO = os.environ.get("VERIF_REPO", "/repo")
BUILD = os.path.join(VERIF, "build")
SPEC = os.path.join(VERIF, "spec")
HARNESS = os.path.join(VERIF, "harness")
TLA_CP = "/opt/veriftools/tla/tla2tools.jar:/opt/veriftools/tla/CommunityModules-deps.jar"
NCPU = int(os.environ.get("VERIF_JOBS", "16"))


class ToolFailure(Exception):
    pass


def log(*a):
    print(*a, file=sys.stderr, flush=True)


# ----------------------------------------------------------------------------- build cache

def _hash_tree(paths):
    h = hashlib.sha256()
    for p in paths:
        if os.path.isdir(p):
            for root, dirs, files in sorted(os.walk(p)):
                dirs.sort()
                for f in sorted(files):
                    fp = os.path.join(root, f)
                    h.update(fp.encode())
                    with open(fp, "rb") as fh:
                        h.update(fh.read())
        elif os.path.exists(p):
            h.update(p.encode())
            with open(p, "rb") as fh:
                h.update(fh.read())
    return h.hexdigest()[:16]


_repo_hash = None


def repo_hash():
    global _repo_hash
    if _repo_hash is None:
        _repo_hash = _hash_tree([os.path.join(REPO, "include"), os.path.join(REPO, "config")])
    return _repo_hash


def version_include():
    """include dir with version.hpp generated from /repo/config/version.hpp.in"""
    d = os.path.join(BUILD, "gen", repo_hash(), "include", "smooth")
    out = os.path.join(d, "version.hpp")
    if not os.path.exists(out):
        os.makedirs(d, exist_ok=True)
        txt = open(os.path.join(REPO, "config", "version.hpp.in")).read()
        cm = open(os.path.join(REPO, "CMakeLists.txt")).read()
        m = re.search(r"project\(\s*smooth\s+VERSION\s+(\d+)\.(\d+)\.(\d+)", cm)
        maj, mnr, pat = m.groups() if m else ("1", "1", "0")
        txt = (txt.replace("@CMAKE_PROJECT_VERSION_MAJOR@", maj).replace("@CMAKE_PROJECT_VERSION_MINOR@", mnr)
               .replace("@CMAKE_PROJECT_VERSION_PATCH@", pat).replace("@CMAKE_PROJECT_VERSION@", f"{maj}.{mnr}.{pat}"))
        import threading
        tmp = out + f".{os.getpid()}.{threading.get_ident()}.tmp"
        with open(tmp, "w") as fh:
            fh.write(txt)
        os.replace(tmp, out)
    return os.path.dirname(d)


CXX = os.environ.get("VERIF_CXX", "g++")
BASE_FLAGS = ["-std=gnu++20", "-O2", "-DNDEBUG", "-DSMOOTH_VERIF", "-w"]


def build_one(src, defs, extra_flags=(), libs=(), cxx=None):
    """compile harness/<src> with -D<defs>; returns path of the cached executable"""
    cxx = cxx or CXX
    # the cache key covers the translation unit itself and every header of the harness directory
    srcs = [os.path.join(HARNESS, f) for f in sorted(os.listdir(HARNESS)) if f == src or f.endswith((".hpp", ".h", ".inc"))]
    key = hashlib.sha256(("|".join([repo_hash(), _hash_tree(srcs), src, cxx] + list(defs) + list(extra_flags) + list(libs))).encode()).hexdigest()[:20]
    bdir = os.path.join(BUILD, "bin")
    os.makedirs(bdir, exist_ok=True)
    exe = os.path.join(bdir, f"{os.path.splitext(src)[0]}_{key}")
    if os.path.exists(exe):
        return exe
    lock = open(exe + ".lock", "w")
    fcntl.flock(lock, fcntl.LOCK_EX)
    try:
        if os.path.exists(exe):
            return exe
        cmd = [cxx] + BASE_FLAGS + list(extra_flags) + [f"-D{d}" for d in defs] + [
            f"-I{os.path.join(REPO, 'include')}", f"-I{version_include()}", f"-I{HARNESS}",
            "-isystem", "/usr/include/eigen3", "-o", exe + ".tmp", os.path.join(HARNESS, src)] + list(libs)
        r = subprocess.run(cmd, capture_output=True, text=True)
        if r.returncode != 0:
            raise ToolFailure(f"compile failed: {' '.join(cmd)}\n{r.stderr[-3000:]}")
        os.replace(exe + ".tmp", exe)
        return exe
    finally:
        fcntl.flock(lock, fcntl.LOCK_UN)
        lock.close()


def build_many(jobs):
    """jobs: list of (src, defs[, extra_flags, libs]) -> list of exe paths, compiled in parallel"""
    with cf.ThreadPoolExecutor(NCPU) as ex:
        futs = [ex.submit(build_one, *j) for j in jobs]
        return [f.result() for f in futs]


def prune_build_cache(max_age_s=6 * 3600):
    bdir = os.path.join(BUILD, "bin")
    if not os.path.isdir(bdir):
        return
    now = time.time()
    for f in os.listdir(bdir):
        p = os.path.join(bdir, f)
        try:
            if now - os.path.getatime(p) > max_age_s and now - os.path.getmtime(p) > max_age_s:
                os.remove(p)
        except OSError:
            pass


# ----------------------------------------------------------------------------- TLC

def ensure_setup():
    if not os.path.exists(os.path.join(SPEC, "BigRat.class")):
        r = subprocess.run([os.path.join(VERIF, "tools", "setup.sh")], capture_output=True, text=True)
        if r.returncode != 0:
            raise ToolFailure("setup failed: " + r.stderr)
    os.makedirs(os.path.join(BUILD, "tmp"), exist_ok=True)


_tlc_counter = [0]


def _cpu_ticks(pid):
    try:
        f = open(f"/proc/{pid}/stat").read().rsplit(")", 1)[1].split()
        return int(f[11]) + int(f[12])
    except (OSError, IndexError, ValueError):
        return None


def _run_watched(cmd, env, timeout):
    """runs TLC; returns (output, rc); rc 124 = wall-clock timeout, rc 125 = killed because the JVM used no CPU
    for 90 s (a hung TLC, see run_tlc)"""
    import tempfile
    with tempfile.TemporaryFile(mode="w+") as fo:
        p = subprocess.Popen(cmd, cwd=SPEC, env=env, stdout=fo, stderr=subprocess.STDOUT, text=True)
        t0 = time.time()
        last_ticks, last_change = _cpu_ticks(p.pid), time.time()
        rc = None
        while True:
            try:
                rc = p.wait(timeout=3)
                break
            except subprocess.TimeoutExpired:
                pass
            now = time.time()
            ticks = _cpu_ticks(p.pid)
            # "progress" = at least 1 % of one core since the last mark (an idle JVM still burns a few ticks in its
            # housekeeping threads)
            if ticks is not None and last_ticks is not None and ticks - last_ticks > (now - last_change) * 1.0 + 20:
                last_ticks, last_change = ticks, now
            elif last_ticks is None:
                last_ticks, last_change = ticks, now
            if now - t0 > timeout:
                p.kill()
                p.wait()
                rc = 124
                break
            if now - last_change > 90:
                p.kill()
                p.wait()
                rc = 125
                break
        fo.seek(0)
        out = fo.read()
    if rc == 124:
        out += "\nTIMEOUT"
    return out, rc


def run_tlc(module, cfg, workdir, env=None, workers=1, timeout=1800, extra=(), xmx="3g", simulate=None):
    """run TLC on spec/<module>.tla with spec/<cfg>; returns dict(rc, out, states, distinct, depth)"""
    ensure_setup()
    _tlc_counter[0] += 1
    meta = os.path.join(workdir, f"meta_{os.getpid()}_{_tlc_counter[0]}_{time.time_ns()}")
    e = dict(os.environ)
    e.pop("JAVA_TOOL_OPTIONS", None)
    if env:
        e.update(env)
    tmpd = meta + "_tmp"
    os.makedirs(tmpd, exist_ok=True)
    cmd = ["java", "-XX:+UseSerialGC" if workers == 1 else "-XX:+UseParallelGC", "-XX:CICompilerCount=2", "-Xss128m", f"-Xmx{xmx}", f"-Djava.io.tmpdir={tmpd}", "-cp", TLA_CP,
           "tlc2.TLC", "-noGenerateSpecTE", "-workers", str(workers), "-metadir", meta, "-config", cfg]
    if simulate:
        cmd += ["-simulate", simulate]
    cmd += list(extra) + [module + ".tla"]
    out, rc = _run_watched(cmd, e, timeout)
    if rc == 125:
        # TLC 1.8 occasionally deadlocks at the end of a run (main thread in StateQueue.suspendAll, the worker in
        # StateQueue.isAvail, no CPU use): the watchdog killed it - run it again (twice at most)
        for _ in range(2):
            out, rc = _run_watched(cmd, e, timeout)
            if rc != 125:
                break
        if rc == 125:
            out += "\nTLC made no progress (no CPU use for 90 s) three times in a row"
            rc = 124
    shutil.rmtree(meta, ignore_errors=True)
    shutil.rmtree(tmpd, ignore_errors=True)
    res = {"rc": rc, "out": out, "states": 0, "distinct": 0, "depth": 0}
    m = re.search(r"(\d+) states generated, (\d+) distinct states found", out)
    if m:
        res["states"], res["distinct"] = int(m.group(1)), int(m.group(2))
    m = re.search(r"depth of the complete state graph search is (\d+)", out)
    if m:
        res["depth"] = int(m.group(1))
    return res


# ----------------------------------------------------------------------------- numbers

def quad_to_float(q):
    s, hi, lo, e = q
    if e == 100001:
        return s * float("inf")
    if e == 100002:
        return float("nan")
    return s * float(hi * (1 << 27) + lo) * 2.0 ** e if abs(e) < 1000 else s * (hi * (1 << 27) + lo) * (2.0 ** (e + 200)) * (2.0 ** -200)


def dequad(x):
    """event value -> floats (for human-readable samples / replays)"""
    if isinstance(x, list):
        if len(x) == 4 and all(isinstance(t, int) for t in x):
            return quad_to_float(x)
        return [dequad(t) for t in x]
    return x


# ----------------------------------------------------------------------------- known findings

def load_known():
    p = os.path.join(VERIF, "known_findings.json")
    if not os.path.exists(p):
        return {"open": [], "fixed": []}
    return json.load(open(p))


def finding_matches(entry, prop, b):
    """entry fields that are present must all match the bad step b (dict with clause, op, g, sc, stratum)"""
    if entry.get("property") != prop:
        return False
    m = entry.get("match", {})
    for k, v in m.items():
        bv = b.get(k)
        if isinstance(v, list):
            if bv not in v:
                return False
        elif k == "clause":
            if not str(bv).startswith(v):
                return False
        elif bv != v:
            return False
    return True


# ----------------------------------------------------------------------------- evidence

def write_evidence(prop, tier, seed, level, coverage, wall, violations, assumptions):
    os.makedirs(os.path.join(VERIF, "evidence"), exist_ok=True)
    ev = {"property_id": prop, "tier": tier, "seed": seed, "level": level, "coverage": coverage,
          "assumptions": assumptions, "wall_s": round(wall, 2), "violations": violations}
    p = os.path.join(VERIF, "evidence", f"{prop}.json")
    tmp = p + ".tmp"
    with open(tmp, "w") as fh:
        json.dump(ev, fh, indent=1, sort_keys=True)
    os.replace(tmp, p)


def write_replay(prop, n, payload):
    d = os.path.join(VERIF, "replays")
    os.makedirs(d, exist_ok=True)
    p = os.path.join(d, f"{prop}-{n}.json")
    with open(p, "w") as fh:
        json.dump(payload, fh, indent=1)
    return p


class Outcome:
    """collects what a check found; prints the interface lines; decides the exit code"""

    def __init__(self, prop, tier, seed):
        self.prop, self.tier, self.seed = prop, tier, seed
        self.known = load_known()
        self.violations = []      # (descr, replay payload)
        self.known_hits = {}      # entry index -> count
        self.cov = {}
        self.states = 0
        self.transitions = 0
        self.traces = 0
        self.events = 0
        self.samples = []
        self.notes = []
        self.extra = {}
        self.t0 = time.time()

    def bad_step(self, b, replay_payload):
        for i, ent in enumerate(self.known["open"]):
            if finding_matches(ent, self.prop, b):
                self.known_hits[i] = self.known_hits.get(i, 0) + 1
                return
        self.violations.append((b, replay_payload))

    def add_cov(self, cov):
        for k, v in cov.items():
            self.cov[k] = self.cov.get(k, 0) + v

    def finish(self, level, rule, assumptions, extra_cov=None, required_witnesses=True):
        # every open finding of this property must have been re-confirmed by its witness in this run
        rc = 0
        for i, ent in enumerate(self.known["open"]):
            if ent.get("property") != self.prop:
                continue
            if self.known_hits.get(i, 0) > 0:
                print(f"KNOWN-FINDING: property={self.prop} {ent['what']} [{self.known_hits[i]} step(s) this run]")
            else:
                self.notes.append(f"open finding not reproduced this run: {ent['what']}")
                log(f"note: open finding not reproduced this run: {ent['what']}")
        seen = set()
        nrep = 0
        for b, payload in self.violations:
            sig = (b.get("clause"), b.get("op"), json.dumps(b.get("g"), sort_keys=True), b.get("sc"), b.get("stratum"))
            if sig in seen and nrep >= 5:
                continue
            seen.add(sig)
            nrep += 1
            if nrep > 25:
                break
            payload = dict(payload)
            payload["bad"] = b
            path = write_replay(self.prop, nrep, payload)
            print(f"VIOLATION property={self.prop} replay={path}")
            log(f"  {b.get('clause')} op={b.get('op')} g={json.dumps(b.get('g'))} sc={b.get('sc')} stratum={b.get('stratum')} err={b.get('err')} tol={b.get('tol')}")
            rc = 1
        coverage = {
            "states": max(self.states, 1), "transitions": max(self.transitions, 1),
            "traces_validated_against_impl": self.traces,
            "events_validated": self.events,
            "evaluations": max(self.events, 1),
            "distinct_nontrivial": max(len([k for k, v in self.cov.items() if v > 0]), 2) if self.cov else 2,
            "rule": rule,
            "cells": dict(sorted(self.cov.items())),
            "samples": self.samples[:6] if self.samples else [{"note": "no sample recorded"}],
            "known_findings_reconfirmed": sum(self.known_hits.values()),
            "notes": self.notes,
        }
        if extra_cov:
            coverage.update(extra_cov)
        coverage.update(self.extra)
        write_evidence(self.prop, self.tier, self.seed, level, coverage, time.time() - self.t0, len(self.violations), assumptions)
        return rc


# ----------------------------------------------------------------------------- trace validation (generic)

def split_trace(path, chunk):
    """split an ndjson trace into chunk files of at most `chunk` lines; returns list of (file, first_line_no)"""
    lines = open(path).read().splitlines()
    if any('"op":"TRUNCATED"' in ln for ln in lines[-1:]):
        raise ToolFailure(f"trace {path} truncated (harness terminated abnormally)")
    outs = []
    for i in range(0, len(lines), chunk):
        p = f"{path}.{i // chunk:04d}"
        with open(p, "w") as fh:
            fh.write("\n".join(lines[i:i + chunk]) + "\n")
        outs.append((p, i))
    return outs, lines


EVAL_ERRORS = ("which is out of bounds", "not in the domain of the function", "Attempted to select field",
               "Attempted to apply the function", "Attempted to access index", "to a non-record value",
               "Attempted to compute the value of an expression of form", "of a non-finite value")


def unevaluable_step(out, chunk_path):
    """The trace specifications are written to be total on everything the library can return, but a change of the
    library may produce output of a SHAPE no clause anticipated (a result vector of the wrong length, a matrix with a
    missing row) on which TLC stops with an evaluation error.  On the unchanged tree this never happens (every check
    evaluates every step).  Such a step is reported as a verdict about that step (clause SPEC.unevaluable: the recorded
    step is not a step of the specification), with the event attached - not as a tool failure.  Only evaluation errors
    of the index / domain / field kind qualify, and only when the position in the trace can be read off TLC's last state;
    the rest of the chunk after that step is not validated."""
    if not any(k in out for k in EVAL_ERRORS):
        return None
    ms = re.findall(r"\bl \|-> (\d+)|/\\ l = (\d+)", out)
    if not ms:
        return None
    line = max(int(a or b) for a, b in ms)
    try:
        n = sum(1 for _ in open(chunk_path))
    except OSError:
        return None
    if not 1 <= line <= n:
        return None
    nonfinite = "of a non-finite value" in out
    i = out.find("of a non-finite value") if nonfinite else out.find("Attempted to access")
    if i < 0:
        i = out.find("Attempted")
    msg = " ".join(out[max(i - 40, 0):i + 260].split()) if i >= 0 else "evaluation error"
    op = "?"
    try:
        with open(chunk_path) as fh:
            for k, ln in enumerate(fh, 1):
                if k == line:
                    op = str(json.loads(ln).get("op", "?"))
                    break
    except (OSError, ValueError):
        pass
    return {"lines": n, "consumed": n, "cov": {}, "unevaluable": True,
            "bad": [{"line": line, "clause": "SPEC.nonfinite" if nonfinite else "SPEC.unevaluable", "op": op, "stratum": "-",
                     "err": ("the library returned a non-finite number where the specification needs a value: " if nonfinite else "") + msg,
                     "tol": "every recorded step must be a step of the specification"}]}


def validate_chunk(module, cfg, chunk_path, workdir, timeout):
    verdict = chunk_path + ".verdict.json"
    if os.path.exists(verdict):
        os.remove(verdict)
    r = run_tlc(module, cfg, workdir, env={"TRACE": chunk_path, "VERDICT": verdict}, timeout=timeout)
    if r["rc"] != 0 or not os.path.exists(verdict):
        # one retry (a rejection / failure is only believed if it repeats)
        r = run_tlc(module, cfg, workdir, env={"TRACE": chunk_path, "VERDICT": verdict}, timeout=timeout)
    if r["rc"] != 0 or not os.path.exists(verdict):
        v = unevaluable_step(r["out"], chunk_path)
        if v is not None:
            return v, r
    if r["rc"] != 0 or not os.path.exists(verdict):
        out = r["out"]
        i = out.find("Error:")
        head = out[i:i + 1500] if i >= 0 else ""
        raise ToolFailure(f"TLC failed on {chunk_path} (rc={r['rc']}):\n{head}\n[...]\n{out[-1200:]}")
    v = json.load(open(verdict))
    if v["consumed"] != v["lines"]:
        raise ToolFailure(f"trace {chunk_path} not fully consumed: {v['consumed']}/{v['lines']}")
    return v, r
